"""C19 — partition, grid, search, list and summary-statistics helpers."""
import itertools, math, random, struct, sys
from fractions import Fraction
from common import *

DBL_MAX = sys.float_info.max


def _step(x, k):
    """the double k places further along the double grid (k < 0: towards -inf); -0/+0 are one grid point"""
    o = struct.unpack("<q", struct.pack("<d", abs(x)))[0]
    o = (o if x >= 0 else -o) + k
    v = struct.unpack("<d", struct.pack("<q", abs(o)))[0]
    return v if o >= 0 else -v


def _ord(x):
    """signed position on the double grid (monotone in x; -0 and +0 share position 0)"""
    o = struct.unpack("<q", struct.pack("<d", abs(x)))[0]
    return o if x >= 0 else -o


def _exact_sub(x, y):
    d = x - y
    return not math.isinf(d) and Fraction(d) == Fraction(x) - Fraction(y)


def _closest_target_ok(l, t):
    """Generator-side margin rule: the target is admitted when the library's two subtractions are exact in double
    (then its comparison of the distances is the exact one) or the two distances differ by a relative 2^-40."""
    lo = [x for x in l if x <= t]
    hi = [x for x in l if x > t]
    if not lo or not hi:
        return True
    a, b = max(lo), min(hi)
    if _exact_sub(t, a) and _exact_sub(b, t):
        return True
    d1, d2 = Fraction(t) - Fraction(a), Fraction(b) - Fraction(t)
    return abs(d1 - d2) * 2 ** 40 >= max(d1, d2)


# element tokens of the Lists_Equal(double) families: (token, value as the library sees it)
_ZEROS = [("0x0p+0", 0.0), ("-0x0.0p+0", -0.0), ("z.lit", -0.0), ("z.ceil", -0.0), ("z.round", -0.0), ("z.under", -0.0)]
_SPECIAL = [("nan", math.nan), ("inf", math.inf), ("-inf", -math.inf), (hx(5e-324), 5e-324), (hx(-5e-324), -5e-324)]


def _dl(elems):
    return "%d %s" % (len(elems), " ".join(t for t, _ in elems)) if elems else "0"


def _delem(tok):
    for t, v in _ZEROS + _SPECIAL:
        if t == tok:
            return v
    return fl(tok)


def _parse_dl(ts, pos):
    n = int(ts[pos])
    return [_delem(t) for t in ts[pos + 1:pos + 1 + n]], pos + 1 + n


def _parse_dll(ts, pos):
    n = int(ts[pos]); pos += 1; r = []
    for _ in range(n):
        row, pos = _parse_dl(ts, pos); r.append(row)
    return r, pos


def _eq_flat(x, y):
    return len(x) == len(y) and all(p == q for p, q in zip(x, y))     # Python float == is the IEEE ==

RULE = ("requests are enumerated (workload, range, closest-index: exhaustive grids as stated in the property) or drawn "
        "from VERIF_SEED; a case is non-trivial when the model answers ok/err (not undef) and it is counted once per "
        "distinct (op, shape-class) key: op, sizes, remainder class, orientation, tie/below/above class")
CORR_ONLY = ["Log_Space (exp/log): decided by the oracle on the implementation's output only",
             "Standard_Deviation = sqrt(Variance): compared against the model's variance through a square"]
ASSUMPTIONS = ["std::upper_bound / std::nth_element / std::is_sorted behave as specified by the C++ standard",
               "Locate_Closest_Location, generator margin rule (_closest_target_ok): a target between two neighbours a <= t < b is generated "
               "only if the library's two subtractions t-a and b-t are exact in double, or the two exact distances differ by at least a "
               "relative 2^-40. Reason: the library compares the ROUNDED distances fabs(a-t) < fabs(b-t); when the exact distances differ by "
               "less than one rounding the rounded ones can coincide and the upper neighbour is returned although the lower one is nearer, "
               "e.g. Locate_Closest_Location({-1,1}, -1e-20) = 1 (distances 1-1e-20 and 1+1e-20 both round to 1). The chosen element is "
               "then farther than the nearest one by at most 2^-52 relative; accepted as inherent to comparing rounded distances (audit defect 3)",
               "Linear_Space / Log_Space: end points that are distinct are generated at least `steps` (Linear_Space) resp. 4*steps (Log_Space) "
               "places apart on the double grid: with fewer doubles than points between the ends no list can be strictly monotone, and each "
               "Log_Space point min*exp(i*dlog) carries up to ~1.5 ulp of rounding, so distinctness is not required below 3 ulps per step "
               "(measured on the repaired code: 0 of 300000 repeats from 3*steps on, 674 of 300000 at 2*steps); closer pairs become the degenerate request min == max",
               "Log_Space end points are positive normal doubles (2.2e-308 .. 1.8e308), 616 decades, either orientation: among the subnormals the rounding unit is absolute, "
               "so 'within rounding' in the logarithm has no meaning there",
               "Linear_Space point i is compared with 2 eps relative to |min|+|max|+|max-min| plus (i+1)*2^-1075 absolute: among the subnormals rounding is absolute "
               "(half a unit 2^-1074 per operation) and the step's rounding error is multiplied by i, e.g. Linear_Space(-0x0.000ffaf01815fp-1022, -0x0.00076a9e40bc3p-1022, 10) "
               "ends 3 units of 2^-1074 above max; negligible (<= 2000*2^-1075) everywhere else",
               "std::sort / std::count with the DataPoint operators: sorted permutation / number of ==-equal elements (the order of points with equal values is unspecified and not compared)"]
TRUSTED = []


def generate(tier, seed, ctx):
    rng = random.Random(seed * 7919 + 19)
    R = []
    thorough = tier == "thorough"
    # --- workload ---------------------------------------------------------------------------
    if thorough:
        for w in range(1, 129):
            for t in range(0, 1025):
                R.append("c19.workload %d %d" % (w, t))
    else:
        for w in range(1, 25):
            for t in range(0, 61):
                R.append("c19.workload %d %d" % (w, t))
        for _ in range(1500):
            R.append("c19.workload %d %d" % (rng.randint(1, 128), rng.randint(0, 1024)))
    # --- range ------------------------------------------------------------------------------
    lim, smax = (40, 40) if thorough else (9, 6)
    for mn in range(-lim, lim + 1):
        for mx in range(-lim, lim + 1):
            for st in range(1, smax + 1):
                R.append("c19.range %d %d %d" % (mn, mx, st))
    if not thorough:
        for _ in range(800):
            R.append("c19.range %d %d %d" % (rng.randint(-40, 40), rng.randint(-40, 40), rng.randint(1, 40)))
    for mx in range(-5, 60):
        R.append("c19.range1 %d" % mx)
    # --- linear / log space: all (min,max,steps), steps 0..2000, either orientation, the full range of doubles -----------
    DBL_MIN = sys.float_info.min
    def apart(x, y, n):
        """at least n places apart on the double grid (fewer doubles than points cannot be strictly monotone)"""
        return abs(_ord(x) - _ord(y)) >= n
    def logu(lo, hi):
        return min(DBL_MAX, max(DBL_MIN, 10.0 ** rng.uniform(lo, hi)))
    nls = 480 if thorough else 160
    for k in range(nls):
        steps = rng.choice([0, 1, 2, 3, 5, 10, 50]) if k % 3 == 0 else rng.randint(0, 2000 if thorough else 300)
        kind = k % 8
        if kind == 0:
            a, b = dyadic(rng), dyadic(rng)
        elif kind == 1:
            a = mixed_magnitude(rng, -6, 6)
            b = a + mixed_magnitude(rng, -3, 6)
        elif kind == 2:
            a = rng.uniform(-1e3, 1e3); b = rng.uniform(-1e3, 1e3)
        elif kind == 3:
            a = rng.uniform(-10, 10); b = a   # degenerate: min == max
        elif kind == 4:
            a = rng.uniform(-1, 1) * DBL_MAX; b = rng.uniform(-1, 1) * DBL_MAX          # anywhere in the double range
        elif kind == 5:
            a = mixed_magnitude(rng, -300, 300); b = mixed_magnitude(rng, -300, 300)     # 600 decades, either sign
        elif kind == 6:
            a = rng.choice([-1, 1]) * rng.uniform(0.5, 1) * DBL_MAX                      # max - min exceeds DBL_MAX
            b = -a * rng.uniform(0.51, 1) if k % 3 else -a
        else:
            a = _step(0.0, rng.randint(-2 ** 40, 2 ** 40)); b = _step(0.0, rng.randint(-2 ** 40, 2 ** 40))   # subnormals
        if a != b and not apart(a, b, steps):
            b = _step(a, rng.choice([-1, 1]) * (steps + rng.randint(0, steps)))
        R.append("c19.linspace %s %s %d" % (hx(a), hx(b), steps))
        lk = k % 6
        if lk == 0:
            la = 10.0 ** rng.uniform(-12, 12); lb = la * 10.0 ** rng.uniform(-8, 8) if k % 7 else la
        elif lk == 1:
            la, lb = logu(-307.7, 308.3), logu(-307.7, 308.3)                            # any two positive normal doubles
        elif lk == 2:
            la, lb = logu(-307.7, -150), logu(150, 308.3)                                # max/min is not a finite double
        elif lk == 3:
            la, lb = DBL_MIN * rng.uniform(1, 4), DBL_MAX / rng.uniform(1, 4)            # the whole normal range
        elif lk == 4:
            la = 10.0 ** rng.uniform(-3, 3); lb = la * 10.0 ** rng.uniform(-1, 1)
        else:
            la = logu(-300, 300); lb = la * (1 + 10.0 ** rng.uniform(-12, -3))
        if rng.random() < 0.5:
            la, lb = lb, la                                                              # either orientation
        if la != lb and not apart(la, lb, 4 * steps):
            lb = la
        R.append("c19.logspace %s %s %d" % (hx(la), hx(lb), steps))
    # close end points, either orientation, at every magnitude: the end points are `c*steps` (+ up to steps) doubles apart,
    # c = 1 for Linear_Space (the pigeonhole bound), c = 4 for Log_Space (see ASSUMPTIONS)
    for k in range(150 if thorough else 50):
        steps = rng.choice([2, 3, 5, 17, 64]) if k % 2 else rng.randint(2, 2000 if thorough else 300)
        a = rng.choice([1.0, 3.5, 1e-3, 1e6, 7.25e4, 2.0 ** rng.randint(-1000, 1000), logu(-300, 300)]) * (1 + rng.random())
        sgn = rng.choice([-1, 1])
        b = _step(a, rng.choice([-1, 1]) * (steps + rng.randint(0, steps)))
        R.append("c19.linspace %s %s %d" % (hx(sgn * a), hx(sgn * b), steps))
        b = _step(a, rng.choice([-1, 1]) * (4 * steps + rng.randint(0, steps)))
        R.append("c19.logspace %s %s %d" % (hx(a), hx(b), steps))
    # --- closest location -----------------------------------------------------------------------
    alpha = [0.0, 1.0, 2.0, 3.0, 4.0]
    maxlen = 6 if thorough else 4
    for n in range(1, maxlen + 1):
        for comb in itertools.combinations_with_replacement(alpha, n):
            targets = [-1.0, 5.0] + alpha + [x + 0.5 for x in alpha[:-1]] + [0.25, 2.75]
            for t in targets:
                R.append("c19.closest %s %s" % (lst(comb), hx(t)))
    for _ in range(600 if thorough else 200):
        n = rng.randint(1, 64)
        l = sorted(dyadic(rng, -8, 8, 3) for _ in range(n))
        c = rng.random()
        if c < 0.3:
            t = rng.choice(l)
        elif c < 0.6 and n > 1:
            i = rng.randrange(n - 1); t = (l[i] + l[i + 1]) / 2
        elif c < 0.7:
            t = l[0] - rng.uniform(0, 3)
        elif c < 0.8:
            t = l[-1] + rng.uniform(0, 3)
        else:
            t = rng.uniform(l[0] - 1, l[-1] + 1)
        R.append("c19.closest %s %s" % (lst(l), hx(t)))
    for t in (0.0, -1.5, 3.0, 1e300, -DBL_MAX, 5e-324):   # an empty list has no closest location -> diagnostic
        R.append("c19.closest 0 %s" % hx(t))
    for _ in range(40):   # unsorted -> diagnostic
        n = rng.randint(2, 12)
        l = [dyadic(rng, -8, 8, 3) for _ in range(n)]
        if l == sorted(l):
            l[0], l[-1] = l[-1] + 1, l[0] - 1
        R.append("c19.closest %s %s" % (lst(l), hx(rng.uniform(-8, 8))))
    # closest location in the regimes where double arithmetic on the neighbours is delicate (the model is exact over Q,
    # every double is an exact rational, so its index is the reference; targets obey _closest_target_ok)
    rng3 = random.Random(seed * 2750159 + 1901)
    def emit_closest(l, t):
        if l == sorted(l) and not math.isinf(t) and _closest_target_ok(l, t):
            R.append("c19.closest %s %s" % (lst(l), hx(t)))
    # (a) several entries of one sign with magnitude above DBL_MAX/2 (sums of neighbours exceed DBL_MAX), mixed with
    #     ordinary values, the mirrored negatives, and entries at DBL_MAX itself
    for k in range(160 if thorough else 60):
        npos = rng3.randint(2, 5)
        lo_frac = 0.5 if k % 4 else 0.2           # every fourth list also has large entries below DBL_MAX/2
        big = sorted(set(rng3.uniform(lo_frac, 1.0) * DBL_MAX for _ in range(npos)))
        if k % 5 == 0:
            big.append(DBL_MAX)
        big = sorted(set(big))
        shape = k % 3
        if shape == 0:
            l = [0.0] + big
        elif shape == 1:
            l = sorted([-x for x in big]) + [rng3.choice([-1.0, 0.0, 1e300])] + big[:rng3.randint(1, len(big))]
        else:
            l = sorted([-x for x in big]) if k % 2 else list(big)
        l = sorted(l)
        for i in range(len(l) - 1):
            a_, b_ = l[i], l[i + 1]
            if a_ == b_:
                continue
            for fr_ in rng3.sample([0.0625, 0.25, 0.4375, 0.5, 0.5625, 0.75, 0.9375], 3):
                t = a_ * (1 - fr_) + b_ * fr_          # never overflows: a convex combination
                emit_closest(l, t)
        emit_closest(l, l[-1]); emit_closest(l, l[0])
    # (b) entries 1..8 places apart on the double grid (around 1, at binade boundaries, at random binades, among the
    #     subnormals, just below DBL_MAX, and the negatives of all these); targets: every grid point in and around the cluster
    for k in range(120 if thorough else 40):
        kind = k % 6
        if kind == 0:
            base = 1.0
        elif kind == 1:
            base = 2.0 ** rng3.randint(-1000, 1000)            # a binade boundary: the grid is twice as fine below it
            base = _step(base, -rng3.randint(0, 6))
        elif kind == 2:
            base = rng3.uniform(1, 2) * 2.0 ** rng3.randint(-1000, 1000)
        elif kind == 3:
            base = 5e-324 * rng3.randint(0, 40)                 # subnormals (and zero)
        elif kind == 4:
            base = _step(DBL_MAX, -rng3.randint(20, 60))
        else:
            base = rng3.uniform(1, 2) * 2.0 ** rng3.randint(-30, 30)
        offs = [0]
        for _ in range(rng3.randint(1, 5)):
            offs.append(offs[-1] + rng3.randint(1, 8))
        if kind == 4:
            offs = [o for o in offs if o <= 19]
        cl = [_step(base, o) for o in offs]
        l = list(cl)
        if k % 3 == 0 and base > 0:
            l = [0.0] + l + ([2 * cl[-1]] if not math.isinf(2 * cl[-1]) else [])
        neg = k % 2 == 1
        if neg:
            l = sorted(-x for x in l)
            cl = sorted(-x for x in cl)
        span = range(-2, (offs[-1] if offs else 0) + 3)
        for j in (span if len(span) <= 30 else rng3.sample(list(span), 30)):
            t = _step(cl[0], j)
            emit_closest(l, t)
    # --- list templates -----------------------------------------------------------------------------
    def il(n=None, hi=4):
        n = rng.randint(0, 8) if n is None else n
        return [rng.randint(0, hi) for _ in range(n)]
    for _ in range(300 if thorough else 120):
        a = il(); b = list(a) if rng.random() < 0.4 else il()
        if rng.random() < 0.2 and b:
            b = b[:-1]
        R.append("c19.listseq %s %s" % (ilst(a), ilst(b)))
        R.append("c19.combine %s %s" % (ilst(a), ilst(b)))
        x = rng.randint(0, 4)
        R.append("c19.contains %s %d" % (ilst(a), x))
        R.append("c19.findidx %s %d" % (ilst(a), x))
        rows, cols = rng.randint(1, 5), rng.randint(0, 5)
        ls = [il(cols) for _ in range(rows)]
        if rng.random() < 0.25 and rows > 1:
            ls[rng.randrange(1, rows)] = il(cols + rng.choice([1, 2]) if rng.random() < 0.5 or cols == 0 else cols - 1)
        R.append("c19.transpose %d %s" % (len(ls), " ".join(ilst(l) for l in ls)))
        R.append("c19.flatten %d %s" % (len(ls), " ".join(ilst(l) for l in ls)))
        ls2 = [list(l) for l in ls] if rng.random() < 0.5 else [il() for _ in range(rng.randint(0, 3))]
        R.append("c19.listseq2 %d %s %d %s" % (len(ls), " ".join(ilst(l) for l in ls), len(ls2), " ".join(ilst(l) for l in ls2)))
        # same number of rows and same flattened content, different row boundaries (ragged re-partition)
        flat = [v for l in ls for v in l]
        if len(ls) >= 2:
            cuts = sorted(rng.randint(0, len(flat)) for _ in range(len(ls) - 1))
            rep = [flat[a:b] for a, b in zip([0] + cuts, cuts + [len(flat)])]
            R.append("c19.listseq2 %d %s %d %s" % (len(ls), " ".join(ilst(l) for l in ls), len(rep), " ".join(ilst(l) for l in rep)))
        n = rng.randint(0, 6)
        R.append("c19.transpose2 %s %s" % (ilst(il(n)), ilst(il(n if rng.random() < 0.8 else n + 1))))
    R.append("c19.transpose 0")      # the transpose of zero lists is the empty list
    R.append("c19.flatten 0")
    # Lists_Equal over double (flat and nested): signed zeros of every origin, NaN, infinities, subnormals
    rng4 = random.Random(seed * 32452843 + 1902)
    ordinary = [(hx(v), v) for v in (1.0, -1.0, 2.5, -2.5, 0.5, 3.0)]
    def delem():
        c = rng4.random()
        return rng4.choice(_ZEROS) if c < 0.35 else (rng4.choice(_SPECIAL) if c < 0.5 else rng4.choice(ordinary))
    def rezero(e):          # the same value through another representation: zeros only (== holds, the bits may differ)
        return rng4.choice(_ZEROS) if e[1] == 0 else e
    def partner(a):
        c = rng4.random()
        if c < 0.35:
            return [rezero(e) for e in a]
        if c < 0.5:
            return list(a)
        if c < 0.7 and a:
            b = list(a); b[rng4.randrange(len(b))] = delem(); return b
        if c < 0.8 and a:
            return a[:-1]
        if c < 0.9:
            return a + [delem()]
        return [delem() for _ in range(rng4.randint(0, 6))]
    for k in range(400 if thorough else 150):
        a = [delem() for _ in range(rng4.randint(0, 7))]
        R.append("c19.listseqd %s %s" % (_dl(a), _dl(partner(a))))
        if k % 5 == 0:      # a symmetric grid against its negated mirror image: the centre is +0 on one side, -0 on the other
            h = rng4.randint(1, 4); st = rng4.choice([0.25, 0.5, 1.0, 3.0])
            g = [i * st for i in range(-h, h + 1)]
            m = [-x for x in reversed(g)]
            R.append("c19.listseqd %s %s" % (lst(g), lst(m)))
        rows = [[delem() for _ in range(rng4.randint(0, 4))] for _ in range(rng4.randint(0, 4))]
        c = rng4.random()
        if c < 0.5:
            rows2 = [[rezero(e) for e in r] for r in rows]
        elif c < 0.7:
            rows2 = [partner(r) for r in rows]
        elif c < 0.85 and len(rows) >= 2:       # same flattened content, other row boundaries
            flat = [e for r in rows for e in r]
            cuts = sorted(rng4.randint(0, len(flat)) for _ in range(len(rows) - 1))
            rows2 = [flat[p:q] for p, q in zip([0] + cuts, cuts + [len(flat)])]
        else:
            rows2 = rows[:-1] if rows and rng4.random() < 0.5 else rows + [[delem()]]
        R.append("c19.listseqd2 %d %s %d %s" % (len(rows), " ".join(_dl(r) for r in rows), len(rows2), " ".join(_dl(r) for r in rows2)))
    # the same vector object as both arguments of every two-list template (directly, through a second reference) and an
    # equal copy, over the IEEE element classes: a list with a NaN is not equal to itself, signed zeros are
    for k in range(160 if thorough else 60):
        a = [delem() for _ in range(rng4.randint(0, 7))]
        if k % 4 == 0 and a:
            a[rng4.randrange(len(a))] = ("nan", math.nan)
        R.append("c19.aliasd %s" % _dl(a))
        rows = [[delem() for _ in range(rng4.randint(0, 4))] for _ in range(rng4.randint(0, 4))]
        if k % 4 == 1 and rows:
            rows[rng4.randrange(len(rows))].append(("nan", math.nan))
        R.append("c19.aliasd2 %d %s" % (len(rows), " ".join(_dl(r) for r in rows)))
    for n in range(0, 6 if thorough else 5):   # Sub_List: exhaustive index grid
        v = [10 + i for i in range(n)]
        for i1 in range(-2, n + 3):
            for i2 in range(0, n + 3):
                R.append("c19.sublist %s %d %d" % (ilst(v), i1, i2))
    # Sub_List at the boundary values of its index types (int i1, unsigned int i2), for int, double and string elements:
    # the clamp must hold for EVERY upper index at or beyond the end (theorem subList_clamp: indices as unbounded naturals)
    words = ["a", "bc", "def", "g", "hi", "jkl", "m", "no"]
    for n in (0, 1, 3, 5, 8) if thorough else (0, 1, 3, 5):
        vi_ = [10 + i for i in range(n)]
        vd_ = [0.5 * i - 1.0 for i in range(n)]
        vs_ = words[:n]
        for i1 in sorted({-2 ** 31, -2, -1, 0, 1, n - 1, n, n + 1, 2 ** 31 - 1}):
            for i2 in sorted({0, 1, max(n - 1, 0), n, n + 1, 2 ** 31 - 1, 2 ** 31, 2 ** 32 - 2, 2 ** 32 - 1}):
                R.append("c19.sublist %s %d %d" % (ilst(vi_), i1, i2))
                R.append("c19.sublistd %s %d %d" % (lst(vd_), i1, i2))
                R.append("c19.sublists %s %d %d" % ("%d %s" % (n, " ".join(vs_)) if n else "0", i1, i2))
    # --- summary statistics with law companions ---------------------------------------------------
    ctx["groups"] = {}
    for g in range(150 if thorough else 50):
        n = rng.randint(1, 200 if thorough else 60)
        kind = g % 3
        if kind == 0:
            x = [dyadic(rng, -16, 16, 3) for _ in range(n)]
        elif kind == 1:
            x = [rng.gauss(rng.uniform(-5, 5), 1) * 10.0 ** rng.randint(-3, 3) for _ in range(n)]
        else:
            x = [rng.uniform(-1, 1) for _ in range(n)]
        c = float(rng.randint(-8, 8)); s = float(rng.choice([-4, -2, -0.5, 0.5, 2, 4]))
        p = list(x); rng.shuffle(p)
        for nm in ("mean", "variance", "median", "stddev"):
            for var, data in (("base", x), ("perm", p), ("shift", [v + c for v in x]), ("scale", [v * s for v in x])):
                if var in ("shift",) and kind != 0:
                    continue   # translation law is checked on exactly representable shifts only
                R.append("c19.%s %s" % (nm, lst(data)))
                ctx["groups"][len(R) - 1] = (g, nm, var, c, s, n)
        if g % 2 == 0:
            w = [1.0] * n
        elif g % 4 == 1 and n >= 2:
            # non-uniform weights normalised to mean one (their sum is exactly N): pairs (1-d, 1+d), dyadic d
            w = []
            while len(w) + 1 < n:
                d_ = rng.choice([0.125, 0.25, 0.5, 0.75])
                w += [1.0 - d_, 1.0 + d_]
            if len(w) < n:
                w.append(1.0)
        else:
            w = [rng.choice([0.5, 1.0, 2.0, 3.0]) for _ in range(n)]
        R.append("c19.wavg %d %s" % (n, " ".join(hx(v) + " " + hx(ww) for v, ww in zip(x, w))))
        ctx["groups"][len(R) - 1] = (g, "wavg", "eq" if g % 2 == 0 else "w", c, s, n)
        if g % 2 == 0:
            R.append("c19.mean %s" % lst(x)); ctx["groups"][len(R) - 1] = (g, "wavg", "mean", c, s, n)
            R.append("c19.variance %s" % lst(x)); ctx["groups"][len(R) - 1] = (g, "wavg", "var", c, s, n)
    # too short a data list (fix 67d359e): no point for the mean/median, fewer than two for variance, standard deviation,
    # weighted average -> diagnostic; one point is still a valid request for the mean and the median
    for nm in ("mean", "median", "variance", "stddev"):
        R.append("c19.%s 0" % nm)
        for v in (0.0, -2.5, 1e300):
            R.append("c19.%s 1 %s" % (nm, hx(v)))
    R.append("c19.wavg 0")
    for v, w in ((1.0, 1.0), (-3.5, 2.0), (0.0, 0.0)):
        R.append("c19.wavg 1 %s %s" % (hx(v), hx(w)))
    # --- DataPoint ordering operators and their use by std::sort / std::count (coverage extension) -----------------
    rng2 = random.Random(seed * 15485863 + 1919)
    for k in range(300 if thorough else 100):
        v1 = dyadic(rng2, -8, 8, 2) if k % 2 else mixed_magnitude(rng2, -5, 5)
        c = k % 4
        v2 = v1 if c == 0 else (math.nextafter(v1, math.inf) if c == 1 else (dyadic(rng2, -8, 8, 2) if c == 2 else -v1))
        w1, w2 = rng2.choice([0.5, 1.0, 2.0, 3.0]), rng2.choice([0.5, 1.0, 2.0, 3.0])
        R.append("c19.dpcmp %s %s %s %s" % (hx(v1), hx(w1), hx(v2), hx(w2)))
    for k in range(120 if thorough else 40):
        n = rng2.choice([0, 1, 2, 3]) if k % 5 == 0 else rng2.randint(2, 60)
        pool = [dyadic(rng2, -8, 8, 2) for _ in range(max(1, n // 2))] if k % 2 else None     # many ties
        d = [(rng2.choice(pool) if pool else rng2.uniform(-100, 100), rng2.choice([0.5, 1.0, 2.0, 3.0])) for _ in range(n)]
        R.append("c19.dpsort %d %s" % (n, " ".join(hx(v) + " " + hx(w) for v, w in d)))
    ctx["index"] = {}
    ctx["results"] = {}
    ctx["reqs"] = R
    return R


# --------------------------------------------------------------------------------------------------

def _ints(ts):
    return [int(t) for t in ts]


def oracle_workload(w, t, v):
    if len(v) != w + 1 or v[0] != 0 or v[-1] != t:
        return "length/ends"
    d = [v[i + 1] - v[i] for i in range(w)]
    if any(x < 0 for x in d):
        return "decreasing"
    if max(d) - min(d) > 1:
        return "differences differ by more than one"
    return None


def oracle_range(mn, mx, st, v):
    exp = list(range(mn, mx, st)) if mn < mx else (list(range(mn, mx, -st)) if mn > mx else [])
    return None if v == exp else "not the stated half-open range"


def oracle_closest(l, t, idx):
    if not (0 <= idx < len(l)):
        return "index out of range"
    d = abs(Fraction(l[idx]) - Fraction(t))
    if any(abs(Fraction(x) - Fraction(t)) < d for x in l):
        return "an element is strictly nearer"
    return None


def compare(rq, impl, model, ctx):
    op = rq.split(" ", 1)[0]
    a = rq.split()[1:]
    fs, both = std_outcome(rq, impl, model)
    bump(ctx, op)
    if op == "c19.logspace":
        return oracle_logspace(a, impl, ctx)
    if op == "c19.stddev":
        if tag(model) == "err":          # fewer than two points: must stop with a diagnostic (std_outcome judged it)
            ctx["nontrivial"].add((op, "guard", a[0]))
            return fs
        if tag(impl) != "ok":
            return [fail("prop", "Standard_Deviation crashed or stopped on a data set of two or more points", impl)]
        _record(ctx, rq, impl)
        return []
    if op in ("c19.range1", "c19.listseq2", "c19.transpose2"):
        # overloads: compared against the primary operation's model by rewriting the request
        return compare_overload(op, a, impl, ctx)
    if op in ("c19.listseqd", "c19.listseqd2"):
        return fs + compare_listseqd(op, a, impl, model, ctx)
    if op in ("c19.aliasd", "c19.aliasd2"):
        return fs + compare_alias(op, a, impl, model, ctx)
    if tag(model) in ("ok", "err"):
        ctx["nontrivial"].add(_key(op, a, model))
    if not both:
        _record(ctx, rq, impl)
        return fs
    ti, tm = toks(impl), toks(model)
    out = []
    if op == "c19.workload":
        w, t = int(a[0]), int(a[1])
        vi, vm = _ints(ti), _ints(tm)
        if vi != vm:
            o = oracle_workload(w, t, vi)
            out.append(fail("prop" if o else "corr", "Workload_Distribution: " + (o or "differs from the model (remainder placement)"), ""))
    elif op == "c19.range":
        vi, vm = _ints(ti)[1:], _ints(tm)[1:]
        if vi != vm or int(ti[0]) != len(vi):
            o = oracle_range(int(a[0]), int(a[1]), int(a[2]), vi)
            out.append(fail("prop" if o else "corr", "Range: " + (o or "differs from model"), ""))
    elif op == "c19.linspace":
        mn, mx, steps = fl(a[0]), fl(a[1]), int(a[2])
        vi = [fl(t) for t in ti[1:]]
        vm = [fr(t) for t in tm[1:]]
        if len(vi) != len(vm):
            out.append(fail("prop", "Linear_Space: wrong number of points", "%d vs %d" % (len(vi), len(vm))))
        else:
            # each point within 2 eps of the exact grid point, eps = 2^-53, relative to |min|+|max|+|max-min| (measured worst
            # case 1.45 over the whole double range).  Among the subnormals rounding is absolute, half a unit 2^-1074 per
            # operation: the step carries 2^-1075, point i = min + i*step therefore i*2^-1075, plus 2^-1075 for the product
            scale = abs(Fraction(mn)) + abs(Fraction(mx)) + abs(Fraction(mx) - Fraction(mn))
            for i, (x, m) in enumerate(zip(vi, vm)):
                if not close(x, m, scale, 2, atol=Fraction(i + 1, 2 ** 1075)):
                    out.append(fail("prop", "Linear_Space: point %d off the equally spaced grid" % i, "%r vs %s" % (x, float(m))))
                    break
            if vi and vi[0] != mn:
                out.append(fail("prop", "Linear_Space: first point is not min exactly", ""))
            if len(vi) > 1:
                mono = all((vi[i + 1] > vi[i]) == (mx > mn) and vi[i + 1] != vi[i] for i in range(len(vi) - 1))
                if not mono:
                    out.append(fail("prop", "Linear_Space: not strictly monotone", ""))
    elif op == "c19.closest":
        l = [fl(t) for t in a[1:1 + int(a[0])]]
        t = fl(a[-1])
        # The property asks for "an index of an element nearest to the target": which minimiser (duplicates of the nearest
        # value, an exact tie between two neighbours) is left free.  By theorem locateClosest_any_minimiser an in-range
        # index satisfies the clause iff its exact distance equals that of the model's index, so the exact DISTANCES
        # are compared (rationals), not the indices; how often the index itself differs is kept as a statistic.
        ii, im = int(ti[0]), int(tm[0])
        if ii != im:
            bump(ctx, "closest.index_differs_from_model")
        if not (0 <= ii < len(l)):
            out.append(fail("prop", "Locate_Closest_Location: index out of range", "%d, size %d" % (ii, len(l))))
        else:
            di, dm = abs(Fraction(l[ii]) - Fraction(t)), abs(Fraction(l[im]) - Fraction(t))
            if di != dm:
                o = oracle_closest(l, t, ii)
                out.append(fail("prop" if o else "corr", "Locate_Closest_Location: " + (o or "distance differs from the model's minimum distance"),
                                "index %d at distance %s, model index %d at distance %s" % (ii, float(di), im, float(dm))))
            elif ii != im and l[ii] != l[im]:
                bump(ctx, "closest.other_neighbour_of_an_exact_tie")
    elif op in ("c19.listseq", "c19.contains", "c19.combine", "c19.findidx", "c19.flatten", "c19.transpose", "c19.sublist"):
        if _ints(ti) != _ints(tm):
            out.append(fail("prop", op[4:] + ": differs from its element-wise definition", ""))
    elif op in ("c19.sublistd", "c19.sublists"):
        n = int(a[0])
        i1, i2 = int(a[-2]), int(a[-1])
        if op == "c19.sublistd":
            src = [fl(t) for t in a[1:1 + n]]
            got = [fl(t) for t in ti[1:]]
            mod = [fr(t) for t in tm[1:]]
            same_as_model = len(got) == len(mod) and all(Fraction(g) == m for g, m in zip(got, mod))
        else:
            src = a[1:1 + n]
            got = ti[1:]
            same_as_model = got == tm[1:]
        # the element-wise definition, evaluated on the request: the inclusive slice [max(0,i1) .. min(i2, size-1)]
        want = src[max(0, i1):min(i2, n - 1) + 1] if n else []
        if int(ti[0]) != len(got) or got != want:
            out.append(fail("prop", op[4:] + ": differs from its element-wise definition (inclusive slice, upper index clamped to the last element)",
                            "got %d elements, definition gives %d" % (len(got), len(want))))
        elif not same_as_model:
            out.append(fail("corr", op[4:] + ": the model disagrees with the definition evaluated on the request", ""))
    elif op == "c19.dpcmp":
        v1, v2 = fl(a[0]), fl(a[2])
        bi, bm = [int(t) for t in ti], [int(t) for t in tm]
        want = [int(v1 < v2), int(v1 > v2), int(v1 == v2)]
        if bi != want:
            out.append(fail("prop", "DataPoint <, >, == do not compare the values (and only the values)",
                            "(%r,%r) vs (%r,%r): <,>,== = %s" % (v1, fl(a[1]), v2, fl(a[3]), bi)))
        elif bi != bm:
            out.append(fail("corr", "DataPoint comparison differs from the model", "%s vs %s" % (bi, bm)))
    elif op == "c19.dpsort":
        n = int(a[0])
        d = [(fl(a[1 + 2 * i]), fl(a[2 + 2 * i])) for i in range(n)]
        vi = [fl(t) for t in ti[1:1 + 4 * n]]
        asc = list(zip(vi[0:2 * n:2], vi[1:2 * n:2]))
        desc = list(zip(vi[2 * n::2], vi[2 * n + 1::2]))
        cnt = int(ti[1 + 4 * n])
        m_asc = [fr(t) for t in tm[1:1 + n]]
        m_desc = [fr(t) for t in tm[1 + n:1 + 2 * n]]
        if sorted(asc) != sorted(d) or sorted(desc) != sorted(d):
            out.append(fail("prop", "std::sort of DataPoints with the library's operators is not a permutation of the data", ""))
        elif [v for v, _ in asc] != sorted(v for v, _ in d) or [v for v, _ in desc] != sorted((v for v, _ in d), reverse=True):
            out.append(fail("prop", "std::sort of DataPoints with operator< / operator> does not order by value", ""))
        elif [Fraction(v) for v, _ in asc] != m_asc or [Fraction(v) for v, _ in desc] != m_desc:
            out.append(fail("corr", "sorted values differ from the model", ""))
        if cnt != (sum(1 for v, _ in d if v == d[0][0]) if n else 0):
            out.append(fail("prop", "std::count with DataPoint operator== does not count the equal values (weights ignored)", "%d" % cnt))
        elif cnt != int(tm[1 + 2 * n]):
            out.append(fail("corr", "count differs from the model", ""))
    elif op in ("c19.mean", "c19.variance", "c19.median"):
        x = [Fraction(fl(t)) for t in a[1:]]
        n = len(x)
        v, m = fl(ti[0]), fr(tm[0])
        sabs = sum(abs(t) for t in x)
        if op == "c19.mean":
            okv = close(v, m, sabs / n, n + 4)
        elif op == "c19.median":
            okv = close(v, m, abs(m), 2)
        else:
            mm = sum(x) / n
            okv = close(v, m, sum((abs(t) + abs(mm)) ** 2 for t in x) / (n - 1), 4 * n + 16)
        if not okv:
            out.append(fail("prop", op[4:] + ": differs from its definition", "%r vs %s" % (v, float(m))))
    elif op == "c19.wavg":
        n = int(a[0])
        d = [(Fraction(fl(a[1 + 2 * i])), Fraction(fl(a[2 + 2 * i]))) for i in range(n)]
        v0, v1 = fl(ti[0]), fl(ti[1])
        m0, m1 = fr(tm[0]), fr(tm[1])
        sw = sum(abs(w * v) for v, w in d) / sum(w for v, w in d)
        if not close(v0, m0, sw, n + 8):
            out.append(fail("prop", "Weighted_Average: average differs from Σwx/Σw", "%r vs %s" % (v0, float(m0))))
        # standard error: compare squares; cancellation-prone -> generous absolute scale
        big = sum((abs(w * v) + abs(m0)) ** 2 for v, w in d) * n / Fraction(max(n - 1, 1)) / (sum(w for v, w in d) ** 2) * 4
        if math.isnan(v1) or not close(Fraction(v1) ** 2, m1, big, 64 * n + 256):
            if not (m1 < 0 and math.isnan(v1)):
                out.append(fail("prop", "Weighted_Average: standard error differs from Cochran's formula", "%r^2 vs %s" % (v1, float(m1))))
    _record(ctx, rq, impl)
    return fs + out


def _key(op, a, model):
    if op == "c19.workload":
        w, t = int(a[0]), int(a[1])
        return (op, w, min(t % w, 3), t // w > 0)
    if op == "c19.range":
        mn, mx, st = int(a[0]), int(a[1]), int(a[2])
        return (op, (mn > mx) - (mn < mx), min(abs(mx - mn) % st, 2), min(st, 4))
    if op == "c19.closest":
        return (op, int(a[0]), model)
    if op in ("c19.sublist", "c19.sublistd", "c19.sublists"):
        return (op, a[0], a[-2], a[-1])
    if op == "c19.dpcmp":
        return (op, model)
    if op == "c19.dpsort":
        return (op, min(int(a[0]), 8), len(set(a[1::2])) < int(a[0]))
    return (op, a[0] if a else "", tag(model), len(a) // 8)


def _record(ctx, rq, impl):
    ctx["results"][rq] = impl


def compare_listseqd(op, a, impl, model, ctx):
    """Lists_Equal over double: the oracle is the definition `sizes equal and v1[i] == v2[i] for all i` with the IEEE ==
    (-0 == +0, NaN != NaN), evaluated on the request; the model (listsEqualD / listsEqualDD) must say the same."""
    if op == "c19.listseqd":
        x, p = _parse_dl(a, 0); y, p = _parse_dl(a, p)
        want = _eq_flat(x, y)
        flat = x + y
    else:
        x, p = _parse_dll(a, 0); y, p = _parse_dll(a, p)
        want = len(x) == len(y) and all(_eq_flat(r, q) for r, q in zip(x, y))
        flat = [e for r in x + y for e in r]
    has_nz = any(e == 0 and math.copysign(1, e) < 0 for e in flat)
    has_pz = any(e == 0 and math.copysign(1, e) > 0 for e in flat)
    ctx["nontrivial"].add((op, want, has_nz and has_pz, any(math.isnan(e) for e in flat), min(len(x), 4)))
    if tag(impl) != "ok":
        return []          # std_outcome has reported it
    got = int(toks(impl)[0])
    out = []
    if got != int(want):
        why = "elements that compare == (e.g. -0.0 and +0.0) reported different" if want else "unequal lists (NaN != NaN, or differing elements/sizes) reported equal"
        out.append(fail("prop", "Lists_Equal(%s): differs from `sizes equal and pointwise ==`: %s" % ("nested double" if op.endswith("2") else "double", why),
                        "returned %d, definition gives %d" % (got, int(want))))
    if tag(model) == "ok" and int(toks(model)[0]) != int(want):
        out.append(fail("corr", "Lists_Equal(double): the model disagrees with the definition evaluated on the request", model))
    _record(ctx, " ".join([op] + a), impl)
    return out


def _same_dbl(x, y):
    """identical as doubles: both NaN, or equal with the same sign of zero"""
    return (math.isnan(x) and math.isnan(y)) or (x == y and math.copysign(1, x) == math.copysign(1, y))


def compare_alias(op, a, impl, model, ctx):
    """Two-list templates called with the same object twice.  Lists_Equal(x,x), Lists_Equal(x,ref-to-x) and Lists_Equal(x,copy)
    must all be the element-wise definition (true iff no element is NaN: theorems listsEqualD_self / listsEqualDD_self);
    Combine_Lists(x,x) must be x followed by x, Transpose_Lists(x,x) the pairs (x[i],x[i]) - element for element as doubles."""
    if tag(impl) != "ok":
        return []
    ti = toks(impl)
    out = []
    if op == "c19.aliasd":
        x, _ = _parse_dl(a, 0); rows = [x]
    else:
        rows, _ = _parse_dll(a, 0)
    flat = [e for r in rows for e in r]
    want = int(not any(math.isnan(e) for e in flat))
    ctx["nontrivial"].add((op, want, min(len(rows if op.endswith("2") else flat), 4)))
    names = ("the same object twice", "the object and a second reference to it", "the object and an equal copy")
    for k in range(3):
        if int(ti[k]) != want:
            out.append(fail("prop", "Lists_Equal(%s) with %s: differs from `sizes equal and pointwise ==` (a list holding a NaN is not equal to itself)"
                            % ("nested double" if op.endswith("2") else "double", names[k]), "returned %s, definition gives %d" % (ti[k], want)))
    if tag(model) == "ok" and [int(t) for t in toks(model)[:3]] != [want] * 3:
        out.append(fail("corr", "Lists_Equal(x,x): the model disagrees with the definition evaluated on the request", model))
    pos = 3
    def rd_list(pos):
        n = int(ti[pos]); return [fl(t) for t in ti[pos + 1:pos + 1 + n]], pos + 1 + n
    if op == "c19.aliasd":
        c, pos = rd_list(pos)
        if len(c) != 2 * len(x) or not all(_same_dbl(p, q) for p, q in zip(c, x + x)):
            out.append(fail("prop", "Combine_Lists(x,x) with the same object twice is not x followed by x", ""))
        nt = int(ti[pos]); pos += 1
        ok_t = nt == len(x)
        for i in range(nt):
            r, pos = rd_list(pos)
            ok_t = ok_t and i < len(x) and len(r) == 2 and _same_dbl(r[0], x[i]) and _same_dbl(r[1], x[i])
        if not ok_t:
            out.append(fail("prop", "Transpose_Lists(x,x) with the same object twice is not the list of pairs (x[i],x[i])", ""))
    else:
        nc = int(ti[pos]); pos += 1
        ok_c = nc == 2 * len(rows)
        for i in range(nc):
            r, pos = rd_list(pos)
            ref = rows[i % len(rows)] if rows else []
            ok_c = ok_c and len(r) == len(ref) and all(_same_dbl(p, q) for p, q in zip(r, ref))
        if not ok_c:
            out.append(fail("prop", "Combine_Lists(vv,vv) with the same object twice is not vv followed by vv", ""))
    return out


def compare_overload(op, a, impl, ctx):
    ctx["nontrivial"].add((op, len(a)))
    if crashed(impl):
        return [fail("prop", op + ": crash/sanitizer", impl)]
    if op == "c19.range1":
        mx = int(a[0])
        v = _ints(toks(impl))[1:]
        if oracle_range(0, mx, 1, v):
            return [fail("prop", "Range(max) is not Range(0,max,1)", "")]
    if op == "c19.transpose2":
        n1 = int(a[0]); x = _ints(a[1:1 + n1]); y = _ints(a[2 + n1:])
        if len(x) != len(y):
            return [] if tag(impl) == "err" else [fail("prop", "Transpose_Lists(v1,v2): ragged input accepted", "")]
        if tag(impl) != "ok":
            return [fail("prop", "Transpose_Lists(v1,v2): meaningful request terminated", impl)]
        t = _ints(toks(impl))
        exp = [len(x)]
        for p, q in zip(x, y):
            exp += [2, p, q]
        if t != exp:
            return [fail("prop", "Transpose_Lists(v1,v2) differs from definition", "")]
    if op == "c19.listseq2":
        def parse(ts, pos):
            n = int(ts[pos]); pos += 1; r = []
            for _ in range(n):
                k = int(ts[pos]); r.append(_ints(ts[pos + 1:pos + 1 + k])); pos += 1 + k
            return r, pos
        x, p = parse(a, 0); y, p = parse(a, p)
        if tag(impl) != "ok" or int(toks(impl)[0]) != int(x == y):
            return [fail("prop", "Lists_Equal (nested) differs from equality", impl)]
    return []


def oracle_logspace(a, impl, ctx):
    mn, mx, steps = fl(a[0]), fl(a[1]), int(a[2])
    ctx["nontrivial"].add(("c19.logspace", min(steps, 5), mn == mx, mx > mn))
    if tag(impl) != "ok":
        return [fail("prop", "Log_Space: crash or exit on a meaningful request", impl)]
    v = [fl(t) for t in toks(impl)[1:]]
    n = 1 if (steps < 2 or mn == mx) else steps
    if len(v) != n:
        return [fail("prop", "Log_Space: wrong number of points", "%d vs %d" % (len(v), n))]
    if n == 1:
        return [] if v[0] == mn else [fail("prop", "Log_Space: degenerate request does not return {min}", "")]
    if any(math.isnan(x) or math.isinf(x) or x <= 0 for x in v):
        return [fail("prop", "Log_Space: a point is not a positive finite number", " ".join(repr(x) for x in v[:4]))]
    out = []
    if v[0] != mn:
        out.append(fail("prop", "Log_Space: does not start at min", "%r vs %r" % (v[0], mn)))
    if abs(Fraction(v[-1]) - Fraction(mx)) > 4 * EPS * Fraction(mx):
        out.append(fail("prop", "Log_Space: does not end at max within rounding", "%r vs %r" % (v[-1], mx)))
    for i in range(n - 1):
        if not ((v[i + 1] > v[i]) == (mx > mn) and v[i + 1] != v[i]):
            out.append(fail("prop", "Log_Space: not strictly monotone", "points %d, %d: %r %r" % (i, i + 1, v[i], v[i + 1]))); break
    # equal spacing in the logarithm within rounding: 64 eps (eps = 2^-53) relative to the largest |log| involved; the
    # double-precision logarithms of the oracle itself contribute up to 2 of these 64
    lg = [math.log(x) for x in v]
    L = max(1.0, abs(math.log(mn)), abs(math.log(mx)))
    dl = (math.log(mx) - math.log(mn)) / (n - 1)
    worst = max(abs((lg[i + 1] - lg[i]) - dl) for i in range(n - 1)) / (L * 2.0 ** -53)
    ctx["stats"]["logspace.worst_spacing_error_in_eps_L_x100"] = max(ctx["stats"].get("logspace.worst_spacing_error_in_eps_L_x100", 0), int(100 * worst))
    if worst > 64:
        out.append(fail("prop", "Log_Space: not equally spaced in the logarithm", "%.1f eps*L" % worst))
    return out


def finalize(ctx, exe):
    """Laws between companion requests, evaluated on the implementation's own outputs."""
    out = []
    R = ctx["reqs"]
    groups = {}
    for i, meta in ctx["groups"].items():
        g, nm, var, c, s, n = meta
        impl = ctx["results"].get(R[i])
        if impl is None or tag(impl) != "ok":
            continue
        groups.setdefault((g, nm), {})[var] = ([fl(t) for t in toks(impl)], c, s, n, R[i])
    for (g, nm), d in groups.items():
        if nm == "wavg":
            if "eq" in d and "mean" in d:
                (avg, se), c, s, n, rq = d["eq"][0], d["eq"][1], d["eq"][2], d["eq"][3], d["eq"][4]
                mean = d["mean"][0][0]
                # all weights one: sum(w*x)/sum(w) performs the very additions and the very division of Arithmetic_Mean
                if avg != mean:
                    out.append(dict(fail("prop", "Weighted_Average with equal weights is not the plain mean (bit for bit)", "%r vs %r" % (avg, mean)), req=rq))
                if "var" in d and n >= 2:
                    var = d["var"][0][0]
                    # standard error = s/sqrt(N) to 8 eps relative (eps = 2^-53), compared exactly through the squares (16 eps)
                    if math.isnan(se) or abs(Fraction(se) ** 2 - Fraction(var) / n) > 16 * EPS * Fraction(var) / n:
                        out.append(dict(fail("prop", "Weighted_Average with equal weights: standard error is not s/sqrt(N)", "%r vs %r" % (se, math.sqrt(var / n))), req=rq))
            continue
        if "base" not in d:
            continue
        b = d["base"][0][0]; c, s, n, rq = d["base"][1:]
        if math.isnan(b):
            continue   # variance of one point
        if nm == "median":
            # the median is one data point or the mean of two: it does not depend on the order, commutes exactly with a
            # scaling by a power of two (all generated factors are +-2^k) and with an exactly representable shift
            for var_, exp_, law in (("perm", b, "permutation law"), ("shift", b + c, "translation law"), ("scale", b * s, "scaling law")):
                if var_ in d and d[var_][0][0] != exp_:
                    out.append(dict(fail("prop", "median: " + law + " (exact)", "%r vs %r" % (d[var_][0][0], exp_)), req=rq))
            continue
        tol = lambda ref: 1e-11 * max(abs(ref), 1e-300) * max(n, 8)
        if "perm" in d and abs(d["perm"][0][0] - b) > tol(b) + (0 if nm == "median" else 1e-13 * n):
            if not (nm in ("variance", "stddev") and abs(d["perm"][0][0] - b) <= 1e-9 * abs(b) + 1e-20):
                out.append(dict(fail("prop", nm + ": permutation law", "%r vs %r" % (d["perm"][0][0], b)), req=rq))
        if "shift" in d:
            exp = b + c if nm in ("mean", "median") else b
            if abs(d["shift"][0][0] - exp) > 1e-9 * max(abs(exp), abs(c), 1.0):
                out.append(dict(fail("prop", nm + ": translation law", "%r vs %r" % (d["shift"][0][0], exp)), req=rq))
        if "scale" in d:
            exp = {"mean": b * s, "median": b * s, "variance": b * s * s, "stddev": b * abs(s)}[nm]
            if abs(d["scale"][0][0] - exp) > 1e-9 * max(abs(exp), 1e-300):
                out.append(dict(fail("prop", nm + ": scaling law", "%r vs %r" % (d["scale"][0][0], exp)), req=rq))
        if nm == "stddev" and (g, "variance") in groups and "base" in groups[(g, "variance")]:
            v = groups[(g, "variance")]["base"][0][0]
            if not math.isnan(v) and abs(b * b - v) > 1e-12 * abs(v):
                out.append(dict(fail("prop", "Standard_Deviation is not sqrt(Variance)", "%r vs %r" % (b, v)), req=rq))
    return out
