"""C03 — adaptive Simpson integration: Integrate(func,a,b,epsilon,maxRecursionDepth)."""
import math, random, sys
from fractions import Fraction
from common import *

if hasattr(sys, "set_int_max_str_digits"):
    sys.set_int_max_str_digits(0)   # exact rationals of the model can have thousands of digits

try:
    import mpmath
    mpmath.mp.dps = 60
except ImportError:   # check.py re-executes itself under python3-vt, which has mpmath
    mpmath = None

RULE = ("requests are drawn from VERIF_SEED in families: exact (dyadic limits, small-integer polynomial coefficients), "
        "quintics with random double coefficients, general polynomials of degree 6-9 and rational functions p/q "
        "(model-compared), estimator-regular transcendental families (mpmath reference), arbitrary integrands "
        "(count/location bounds), companions with swapped limits / negated epsilon / equal limits. A case is non-trivial "
        "when the limits differ; it is counted once per distinct (family, degree-or-kind, orientation, depth, "
        "log2 evaluation count, warning flag, excused flag)")
CORR_ONLY = ["order in which the nodes are visited (left unspecified by the property and, for the two recursive calls, by C++): only the sorted multiset of abscissae is compared (integrate_evals_perm)",
             "Simpson error representation I-S = -(h^5/2880) f''''(xi) (hypothesis of simpson_regular_4eps) is classical analysis, not formalised; "
             "the 4|eps| clause on exp/cosh/power families is decided by the oracle against mpmath"]
ASSUMPTIONS = ["the user integrand is a pure function (the model takes f : Rat -> Rat)",
               "the 4|eps| clause is evaluated only on runs WITHOUT the non-convergence warning: when the recursion is cut off by "
               "maxRecursionDepth (warning printed) the requested accuracy is unattainable by construction (e.g. depth 0 with eps=1e-18), "
               "which is what simpson_budget states (hypothesis warn = false)",
               "estimator-regular: f'''' keeps one sign and max|f''''|/min|f''''| <= 4 on the interval",
               "libm exp/cosh/pow are accurate to a few ulp (reference: mpmath at 60 digits)"]
TRUSTED = ["translators/constants.py (regenerates lean/LpModel/C03/Constants.lean from the anchored numeric literals of the current source before every lake build; a missing anchor falls back to the committed default and is recorded in notes.pre_build.anchor_missing)",
           "mpmath closed-form antiderivatives as the reference for the transcendental families"]

# ---------------------------------------------------------------------------------------------------
# translator tie (DESIGN.md §4.5): the numeric literals of src/Integration.cpp the model depends on
# ---------------------------------------------------------------------------------------------------

def _constants_translator(verif):
    import importlib.util, os
    spec = importlib.util.spec_from_file_location("lp_constants_tr", os.path.join(verif, "translators", "constants.py"))
    m = importlib.util.module_from_spec(spec)
    spec.loader.exec_module(m)
    return m


def pre_build(c):
    """regenerate lean/LpModel/C03/Constants.lean from the repository under check (called by check.py with
    the lake lock held, before `lake build`); a missing anchor is recorded, never an alarm"""
    return _constants_translator(c["verif"]).regenerate("C03", c["repo"], c["lean"])


TRACE_MAX = 1100        # abscissae lists are compared element-wise up to this many evaluations
MARGIN = Fraction(1, 2 ** 30)
KVAL = 64               # value tolerance K (audit: worst 36.4 u*scale in 4M cases, 99.97 % <= 8)
KFAM = 256              # rounding allowance of the 4|eps| clause (audit: at ratio exactly 4 exceeded once by 39 u*scale)


# ---------------------------------------------------------------------------------------------------
# request construction / parsing
# ---------------------------------------------------------------------------------------------------

def fn_poly(cs):
    return "poly " + lst(cs)


def fn_rat(p, q):
    return "rat %s %s" % (lst(p), lst(q))


def rq_int(tr, fn, a, b, eps, depth, op="c03.int"):
    return "%s %d %s %s %s %s %d" % (op, tr, fn, hx(a), hx(b), hx(eps), depth)


def rq_fam(tr, kind, w, s, k, a, b, eps, depth):
    return "c03.fam %d %s %s %s %s %s %s %s %d" % (tr, kind, hx(w), hx(s), hx(k), hx(a), hx(b), hx(eps), depth)


def parse_rq(rq):
    t = rq.split()
    op, tr, kind = t[0], int(t[1]), t[2]
    pos = 3
    d = dict(op=op, tr=tr, kind=kind)
    if kind in ("poly", "rat"):
        n = int(t[pos]); d["p"] = [fl(x) for x in t[pos + 1:pos + 1 + n]]; pos += 1 + n
        if kind == "rat":
            n = int(t[pos]); d["q"] = [fl(x) for x in t[pos + 1:pos + 1 + n]]; pos += 1 + n
    else:
        d["w"], d["s"], d["k"] = fl(t[pos]), fl(t[pos + 1]), fl(t[pos + 2]); pos += 3
    d["a"], d["b"], d["eps"], d["depth"] = fl(t[pos]), fl(t[pos + 1]), fl(t[pos + 2]), int(t[pos + 3])
    return d


def poly_from_roots(roots, lead=1):
    cs = [Fraction(lead)]
    for r in roots:
        r = Fraction(r)
        new = [Fraction(0)] * (len(cs) + 1)
        for i, c in enumerate(cs):
            new[i] -= c * r
            new[i + 1] += c
        cs = new
    return cs


def poly_exact_integral(cs, a, b):
    a, b = Fraction(a), Fraction(b)
    return sum(Fraction(c) / (i + 1) * (b ** (i + 1) - a ** (i + 1)) for i, c in enumerate(cs))


def poly_scale(cs, a, b):
    m = max(abs(Fraction(a)), abs(Fraction(b)))
    return abs(Fraction(b) - Fraction(a)) * sum(abs(Fraction(c)) * m ** i for i, c in enumerate(cs))


# ---------------------------------------------------------------------------------------------------
# generator
# ---------------------------------------------------------------------------------------------------

def generate(tier, seed, ctx):
    rng = random.Random(seed * 7919 + 3)
    thorough = tier == "thorough"
    R = []
    ctx["meta"] = {}
    ctx["results"] = {}

    def add(rq, fam, companions=True):
        R.append(rq); ctx["meta"][rq] = dict(fam=fam)
        if not companions:
            return
        d = parse_rq(rq)
        body = rq.split()
        # companions: swapped limits, negated epsilon, equal limits (class D, on the implementation itself)
        sw = list(body); sw[-4], sw[-3] = body[-3], body[-4]
        ne = list(body); ne[-2] = hx(-d["eps"])
        for nm, toks_ in (("swap", sw), ("negeps", ne)):
            r2 = " ".join(toks_)
            if r2 != rq and r2 not in ctx["meta"]:
                R.append(r2); ctx["meta"][r2] = dict(fam=fam + "/" + nm, base=rq, rel=nm)
        if rng.random() < 0.15:
            eq = list(body); eq[-3] = body[-4]
            r2 = " ".join(eq)
            if r2 not in ctx["meta"]:
                R.append(r2); ctx["meta"][r2] = dict(fam=fam + "/eq", base=rq, rel="eq")

    def limits(kind):
        if kind == "dyadic":
            a = dyadic(rng, -8, 8, 3); w = rng.choice([0.125, 0.25, 0.5, 1, 2, 3, 4.5, 8])
            return a, a + w
        width = 10.0 ** rng.uniform(-6, 3)
        c = rng.choice([0.0, rng.uniform(-1, 1), rng.uniform(-100, 100), mixed_magnitude(rng, -3, 3)])
        return c - width * rng.random(), c + width * rng.random()

    def depth_eps(scale, maxdepth):
        """(depth, eps): eps from 1e-18..1e2 (absolute); deep recursions only with eps that stops them"""
        depth = rng.choice([0, 1, 2, 3, 5, 8, rng.randint(0, maxdepth), rng.randint(0, maxdepth)])
        eps = 10.0 ** rng.uniform(-18, 2)
        if depth > (14 if thorough else 11):
            eps = max(eps, abs(scale) * 10.0 ** rng.uniform(-9, -2))
        return depth, eps

    maxdepth = 25 if thorough else 12
    N = 5 if thorough else 1
    # 1. exact family: dyadic limits, small integer coefficients, dyadic eps --------------------------
    for _ in range(160 * N):
        deg = rng.choice([0, 1, 2, 3, 4, 4, 5, 5, 5, 6, 7, 8, 9])
        cs = [float(rng.randint(-4, 4)) for _ in range(deg + 1)]
        if cs[-1] == 0:
            cs[-1] = 1.0
        a, b = limits("dyadic")
        depth = rng.choice([0, 1, 2, 3, 4, 5, 6, 7, 8, 10, 12])
        eps = 2.0 ** rng.randint(-40, 4) * rng.choice([1, 3, 5])
        add(rq_int(1 if depth <= 8 else 0, fn_poly(cs), a, b, eps, depth), "exact/deg%d" % deg)
    # 2. quintics and below, random double coefficients, all widths, eps, depths ---------------------
    for _ in range(220 * N):
        deg = rng.choice([0, 1, 2, 3, 4, 5, 5, 5, 5])
        cs = [rng.choice([rng.uniform(-1, 1), mixed_magnitude(rng, -3, 3)]) for _ in range(deg + 1)]
        a, b = limits("any")
        depth, eps = depth_eps(float(poly_scale(cs, a, b)), maxdepth)
        add(rq_int(1 if depth <= 8 else 0, fn_poly(cs), a, b, eps, depth), "quintic/deg%d" % deg)
    # 3. general polynomials (degree 6..9) and rational functions ----------------------------------------
    for _ in range(120 * N):
        deg = rng.randint(6, 9)
        cs = [rng.uniform(-1, 1) * 10.0 ** rng.randint(-2, 2) for _ in range(deg + 1)]
        a, b = limits(rng.choice(["dyadic", "any"]))
        depth, eps = depth_eps(float(poly_scale(cs, a, b)), maxdepth)
        add(rq_int(1 if depth <= 8 else 0, fn_poly(cs), a, b, eps, depth), "poly/deg%d" % deg)
    for _ in range(120 * N):
        # p/q with q = (x - r)^2 + g > 0 or q = x + s positive on the interval
        a, b = limits(rng.choice(["dyadic", "any"]))
        if rng.random() < 0.5:
            r = rng.uniform(min(a, b) - 1, max(a, b) + 1); g = 10.0 ** rng.uniform(-2, 1)
            q = [r * r + g, -2 * r, 1.0]
        else:
            s = -min(a, b) + abs(b - a) * 10.0 ** rng.uniform(-1, 1) + 1e-3
            q = [s, 1.0]
            if rng.random() < 0.4:
                q = [s * s, 2 * s, 1.0]
        p = [rng.uniform(-2, 2) for _ in range(rng.randint(1, 3))]
        sc = abs(b - a) * 4 / min(abs(Fraction(q[0]) + Fraction(q[1]) * Fraction(x) + (Fraction(q[2]) * Fraction(x) ** 2 if len(q) > 2 else 0)) for x in (a, b, (a + b) / 2))
        depth, eps = depth_eps(float(sc), 7)   # exact sums of p/q over many panels have huge denominators
        add(rq_int(1, fn_rat(p, q), a, b, eps, depth), "rat/%d/%d" % (len(p) - 1, len(q) - 1))
    # 4. estimator-regular transcendental families: error <= 4|eps| + rounding --------------------------
    L4 = math.log(4.0)
    for _ in range(260 * N):
        kind = rng.choice(["exp", "cosh", "ipow", "pow"])
        w = s = k = 0.0
        if kind == "exp":
            a, b = limits("any")
            w = rng.choice([-1, 1]) * rng.uniform(0.02, 0.98) * L4 / abs(b - a)
            if abs(w) * max(abs(a), abs(b)) > 300:
                continue
        elif kind == "cosh":
            width = 10.0 ** rng.uniform(-3, 2)
            if rng.random() < 0.5:    # interval contains 0: cosh(w*max|x|) <= 4
                a = -width * rng.random(); b = a + width
                w = rng.uniform(0.05, 0.95) * math.acosh(4.0) / max(abs(a), abs(b))
            else:                      # away from 0: ratio <= e^{w*width}
                a = rng.uniform(0, 5) * width; b = a + width
                w = rng.uniform(0.05, 0.95) * L4 / width
                if w * b > 300:
                    continue
            if rng.random() < 0.5:
                a, b = -b, -a
        elif kind == "ipow":
            k = rng.choice([1.0, 2.0, 3.0, 0.5, 1.5, rng.uniform(0.2, 6)])
            rho = 4.0 ** (rng.uniform(0.05, 0.95) / (k + 4))     # (b+s)/(a+s)
            a0 = 10.0 ** rng.uniform(-3, 3); s = rng.choice([0.0, rng.uniform(-0.5, 0.5) * a0, 10.0 ** rng.uniform(-2, 2)])
            a = a0 - s; b = a0 * rho - s
        else:
            k = rng.choice([-2.5, -1.5, -0.5, 0.5, 1.5, 2.5, 3.5, 4.5, 6.0, 7.0, 9.5, rng.uniform(-3, 12)])
            if abs(k - 4) < 1e-3 or abs(k + 1) < 1e-3:
                continue
            rho = 4.0 ** (rng.uniform(0.05, 0.95) / abs(k - 4))
            rho = min(rho, 1e3)
            a = 10.0 ** rng.uniform(-3, 3); b = a * rho
        if rng.random() < 0.3:
            a, b = b, a
        d0 = dict(kind=kind, w=w, s=s, k=k, a=a, b=b)
        I = abs(float(fam_reference(d0)))
        depth = rng.choice([12, 16, 20, 20, 25]) if thorough else rng.choice([10, 12, 12])
        eps = I * 10.0 ** rng.uniform(-11 if thorough else -9, 0) * rng.choice([1, 1, -1])
        add(rq_fam(0, kind, w, s, k, a, b, eps, depth), "fam/" + kind, companions=rng.random() < 0.3)
    # 5. arbitrary integrands: evaluation count and location bounds --------------------------------------
    for _ in range(120 * N):
        kind = rng.choice(["sin", "abs", "step", "runge"])
        a, b = limits("any")
        m = (a + b) / 2 + (b - a) * rng.uniform(-0.7, 0.7)
        w, s, k = {"sin": (rng.uniform(0.1, 200) / abs(b - a), rng.uniform(0, 6), 0.0),
                   "abs": (0.0, m, rng.choice([0.5, 1.0, 0.25, 1.5])),
                   "step": (rng.uniform(-2, 2), m, rng.uniform(-2, 2)),
                   "runge": (10.0 ** rng.uniform(0, 6) / (b - a) ** 2, m, 0.0)}[kind]
        depth = rng.choice([-3, -1, 0, 1, 2, 4, 6, 9, 12, rng.randint(0, 14 if thorough else 12)])
        eps = 10.0 ** rng.uniform(-18, 2) * rng.choice([1, -1])
        if rng.random() < 0.05:
            eps = 0.0
        add(rq_fam(1 if depth <= 6 else 0, kind, w, s, k, a, b, eps, depth), "arb/" + kind)
    # 6. deterministic: integrands that vanish EXACTLY (in double) at both limits and/or the midpoint while the
    #    integral is not zero: polynomials of degree 3..5 from dyadic roots placed at a, (a+b)/2, b -----------
    def dz(cs, x):
        r = 0.0
        for c in reversed(cs):
            r = c + x * r
        return r == 0.0
    zcases = 0
    for (a, b) in ((-1.0, 1.0), (0.0, 1.0), (1.0, 3.0), (-2.0, 2.0), (0.5, 2.5), (-3.0, -1.0)):
        m = (a + b) / 2
        for placed in ((a, m, b), (a, m), (m, b), (a, b)):
            for extra in ([], [a - 0.5], [b + 1.0], [(a + m) / 2], [a - 0.5, b + 1.0], [m, b + 0.5], [(a + m) / 2, b + 1.0]):
                roots = list(placed) + extra
                if not (3 <= len(roots) <= 5):
                    continue
                cs = [float(c) for c in poly_from_roots(roots)]
                if not all(dz(cs, x) for x in placed):
                    continue
                for (eps, depth) in ((2.0 ** -30, 0), (2.0 ** -10, 3), (1e-12, 8), (0.5, 12)):
                    add(rq_int(1, fn_poly(cs), a, b, eps, depth), "zeros/%d/deg%d" % (len(placed), len(roots)))
                    zcases += 1
    # 7. narrow intervals far from the origin: |b-a|/max(|a|,|b|) log-uniform from ~100 ulp to 1e-6, offsets up to 1e12
    for _ in range(120 * N):
        deg = rng.choice([0, 1, 2, 3, 3, 4, 5, 5])
        cs = [rng.choice([float(rng.randint(-4, 4)), rng.uniform(-2, 2)]) for _ in range(deg + 1)]
        if cs[-1] == 0:
            cs[-1] = 1.0
        off = rng.choice([-1, 1]) * 10.0 ** rng.uniform(0, 12)
        rel = 10.0 ** rng.uniform(math.log10(100 * 2.0 ** -52), -6)
        a = off; b = off * (1 + rel)
        if a == b:
            continue
        sc = float(poly_scale(cs, a, b))
        depth = rng.choice([0, 0, 1, 2, 3, 5, 8])
        eps = sc * 10.0 ** rng.uniform(-18, 0) if rng.random() < 0.7 else 10.0 ** rng.uniform(-18, 2)
        add(rq_int(1, fn_poly(cs), a, b, eps, depth), "narrow/deg%d" % deg)
    # 8. re-entrancy: the outer integrand itself calls Integrate with another depth / epsilon (value discarded);
    #    the outer run must be the run of the plain call (class D) and the model's (integrate_nested_independent)
    def add_nested(tr, fn, a, b, eps, depth, ifn, ia, ib, ieps, idepth, fam, famop=False):
        plain = rq_int(tr, fn, a, b, eps, depth, op="c03.fam" if famop else "c03.int")
        if plain not in ctx["meta"]:
            R.append(plain); ctx["meta"][plain] = dict(fam=fam + "/plain")
        rq = "%s %s %s %s %s %d" % (plain.replace("c03.fam", "c03.nestedf", 1).replace("c03.int", "c03.nested", 1),
                                     ifn, hx(ia), hx(ib), hx(ieps), idepth)
        if rq not in ctx["meta"]:
            R.append(rq); ctx["meta"][rq] = dict(fam=fam, base=plain, rel="nested")
    for _ in range(36 * N):
        # outer: polynomial that does not converge at a tiny eps (count bound at stake) or converges at a moderate one
        deg = rng.choice([4, 5, 6, 7, 8])
        cs = [float(rng.randint(-4, 4)) for _ in range(deg + 1)]
        if cs[-1] == 0:
            cs[-1] = 1.0
        a, b = limits("dyadic")
        if rng.random() < 0.5:
            a, b = b, a
        d1 = rng.choice([0, 1, 2, 3, 3, 4, 5, 6])
        d2 = rng.choice([x for x in (0, 1, 2, 4, 6, 8, 10, 12) if x != d1 and x + d1 <= 14])
        eps = rng.choice([2.0 ** -40, 2.0 ** -30, 2.0 ** -12, 2.0 ** -4])
        ics = [float(rng.randint(-3, 3)) for _ in range(rng.choice([3, 7, 8]))] + [1.0]
        ieps = rng.choice([2.0 ** -45, 2.0 ** -20, 1.0])
        add_nested(1 if d1 <= 6 else 0, fn_poly(cs), a, b, eps, d1, fn_poly(ics), -1.0, 2.0, ieps, d2, "nested/poly")
    for _ in range(30 * N):
        # outer: estimator-regular family at a generous depth (4|eps| clause at stake), inner call shallow
        w = rng.choice([-1, 1]) * rng.uniform(0.2, 0.95) * L4
        a = rng.uniform(-2, 2); b = a + 1.0
        d0 = dict(kind="exp", w=w, s=0.0, k=0.0, a=a, b=b)
        I0 = abs(float(fam_reference(d0)))
        eps = I0 * 10.0 ** rng.uniform(-10, -4)
        d1 = rng.choice([14, 16, 20]); d2 = rng.choice([0, 0, 1, 2])
        plain_fn = "exp %s %s %s" % (hx(w), hx(0.0), hx(0.0))
        add_nested(0, plain_fn, a, b, eps, d1, fn_poly([1.0, -2.0, 0.5, 1.0]), 0.0, 1.0, 1.0, d2, "nested/exp", famop=True)
    # 9. depth saturation at depths > 14: eps = 0 and an integrand whose Simpson estimates never agree exactly, so the
    #    recursion runs to the bottom everywhere and the evaluation count EQUALS the bound 2^(depth+2)+1
    for depth in ([] if not thorough else [15, 16]):
        cs = [float(rng.randint(1, 4)) for _ in range(5)] + [1.0, 0.0, 1.0]     # degree 7, dyadic (model-compared)
        a = float(rng.randint(-2, 1)); b = a + rng.choice([1.0, 2.0])
        add(rq_int(0, fn_poly(cs), a, b, 0.0, depth), "saturate/poly/depth%d" % depth, companions=False)
    for depth in (15, 16, 18) if not thorough else (15, 16, 17, 18, 19, 20):
        add(rq_fam(0, "noise", rng.uniform(1e3, 1e4), rng.uniform(0, 6), 0.0, 0.0, 1.0, 0.0, depth), "saturate/depth%d" % depth, companions=False)
    # 10. history across the two entry points: Find_Epsilon(g, lo, hi, precision) immediately before Integrate(f, a, b, ...)
    #     with ANOTHER integrand of the same callable type on bitwise the same limits (integrate_after_findEpsilon)
    def add_hist(tr, fn, a, b, eps, depth, gfn, prec, fam, famop=False):
        plain = rq_int(tr, fn, a, b, eps, depth, op="c03.fam" if famop else "c03.int")
        if plain not in ctx["meta"]:
            R.append(plain); ctx["meta"][plain] = dict(fam=fam + "/plain")
        rq = "%s %s %s" % (plain.replace("c03.fam", "c03.histf", 1).replace("c03.int", "c03.hist", 1), gfn, hx(prec))
        if rq not in ctx["meta"]:
            R.append(rq); ctx["meta"][rq] = dict(fam=fam, base=plain, rel="hist")
    for _ in range(40 * N):
        deg = rng.choice([1, 2, 3, 5, 6, 8])
        cs = [float(rng.randint(-4, 4)) for _ in range(deg + 1)]
        if cs[-1] == 0:
            cs[-1] = 1.0
        gcs = [float(rng.randint(-4, 4)) + 0.5 for _ in range(rng.randint(1, 6))]
        a, b = limits(rng.choice(["dyadic", "any"]))
        if rng.random() < 0.5:
            a, b = b, a
        depth, eps = depth_eps(float(poly_scale(cs, a, b)), 8)
        add_hist(1, fn_poly(cs), a, b, eps, depth, fn_poly(gcs), 10.0 ** -rng.randint(3, 9), "hist/poly")
    for _ in range(16 * N):
        w = rng.choice([-1, 1]) * rng.uniform(0.2, 0.95) * L4
        a = rng.uniform(-2, 2); b = a + 1.0
        I0 = abs(float(fam_reference(dict(kind="exp", w=w, s=0.0, k=0.0, a=a, b=b))))
        add_hist(0, "exp %s %s %s" % (hx(w), hx(0.0), hx(0.0)), a, b, I0 * 10.0 ** rng.uniform(-10, -4), rng.choice([14, 16, 20]),
                 "exp %s %s %s" % (hx(-w * 0.5), hx(0.0), hx(0.0)), 1e-6, "hist/exp", famop=True)
    # negative depth / zero epsilon on the model-compared side too
    for _ in range(30 * N):
        cs = [float(rng.randint(-4, 4)) for _ in range(rng.randint(1, 8))]
        a, b = limits("dyadic")
        add(rq_int(1, fn_poly(cs), a, b, rng.choice([0.0, 2.0 ** -20, -2.0 ** -8]), rng.choice([-5, -1, 0, 3])), "edge")
    return R


# ---------------------------------------------------------------------------------------------------
# references
# ---------------------------------------------------------------------------------------------------

def fam_reference(d):
    mp = mpmath.mp
    a, b = mpmath.mpf(d["a"]), mpmath.mpf(d["b"])
    w, s, k = mpmath.mpf(d["w"]), mpmath.mpf(d["s"]), mpmath.mpf(d["k"])
    kind = d["kind"]
    if kind == "exp":
        return (b - a) if w == 0 else (mpmath.exp(w * b) - mpmath.exp(w * a)) / w
    if kind == "cosh":
        return (b - a) if w == 0 else (mpmath.sinh(w * b) - mpmath.sinh(w * a)) / w
    if kind == "ipow":
        if k == 1:
            return mpmath.log((b + s) / (a + s))
        return ((b + s) ** (1 - k) - (a + s) ** (1 - k)) / (1 - k)
    if kind == "pow":
        return (b ** (k + 1) - a ** (k + 1)) / (k + 1)
    raise ValueError(kind)


def fam_maxabs(d):
    a, b, w, s, k = d["a"], d["b"], d["w"], d["s"], d["k"]
    kind = d["kind"]
    if kind == "exp":
        return max(math.exp(w * a), math.exp(w * b))
    if kind == "cosh":
        return max(math.cosh(w * a), math.cosh(w * b))
    if kind == "ipow":
        return max((a + s) ** -k, (b + s) ** -k)
    return max(a ** k, b ** k)


# ---------------------------------------------------------------------------------------------------
# comparator + oracle
# ---------------------------------------------------------------------------------------------------

def parse_impl(impl, tr):
    t = toks(impl)
    r = dict(val=fl(t[0]), warn=int(t[1]), n=int(t[2]), sum=fl(t[3]), mn=fl(t[4]), mx=fl(t[5]), swapw=int(t[6]))
    r["xs"] = [fl(x) for x in t[7:]] if tr else None
    return r


def oracle(d, I, ctx):
    """the property's own clauses evaluated on the implementation's output (no model)"""
    out = []
    a, b, eps, depth = d["a"], d["b"], d["eps"], d["depth"]
    if a == b:
        if I["val"] != 0.0 or I["n"] != 0:
            out.append(fail("prop", "equal limits do not give zero without evaluating the integrand", "val=%r n=%d" % (I["val"], I["n"])))
        return out
    bound = 2 ** (max(depth, 0) + 2) + 1
    if I["n"] < 5:   # simpson_eval_count_lower: only a == b may return without looking at the integrand
        out.append(fail("prop", "unequal limits: the integrand was evaluated fewer than five times (ends, midpoint, quarter points)",
                        "n=%d val=%r |b-a|/max(|a|,|b|)=%.3g" % (I["n"], I["val"], abs(b - a) / max(abs(a), abs(b)))))
    if I["n"] == bound and depth > 14:
        bump(ctx, "depth saturated at depth > 14 (count equals the bound)")
    if I["n"] > bound:
        out.append(fail("prop", "integrand evaluated more than 2^(depth+2)+1 times", "%d > %d" % (I["n"], bound)))
    if I["n"] and (I["mn"] < min(a, b) or I["mx"] > max(a, b)):
        out.append(fail("prop", "integrand evaluated outside the closed interval", "[%r,%r] vs [%r,%r]" % (I["mn"], I["mx"], min(a, b), max(a, b))))
    if math.isnan(I["val"]) or math.isinf(I["val"]):
        out.append(fail("prop", "non-finite result on a finite integrand", repr(I["val"])))
        return out
    if d["kind"] == "poly" and len(d["p"]) <= 6:
        ex = poly_exact_integral(d["p"], a, b)
        sc = poly_scale(d["p"], a, b)
        if not close(I["val"], ex, sc, KVAL):
            out.append(fail("prop", "polynomial of degree <= 5 not integrated exactly (to rounding)",
                            "impl=%r exact=%r err/(u*scale)=%.3g" % (I["val"], float(ex), float(abs(Fraction(I["val"]) - ex) / (EPS * sc)) if sc else -1)))
        ctx["maxratio"] = max(ctx.get("maxratio", 0), float(abs(Fraction(I["val"]) - ex) / (EPS * sc)) if sc else 0)
    if d["kind"] in ("exp", "cosh", "ipow", "pow") and not I["warn"]:
        ref = fam_reference(d)
        sc = abs(b - a) * fam_maxabs(d)
        err = abs(mpmath.mpf(I["val"]) - ref)
        tol = 4 * abs(eps) + KFAM * 2.0 ** -53 * sc
        ctx["maxfam"] = max(ctx.get("maxfam", 0), float((err - 4 * abs(eps)) / (2.0 ** -53 * sc)))
        ctx["maxfameps"] = max(ctx.get("maxfameps", 0), float(err / abs(eps)) if eps else 0)
        if err > tol:
            out.append(fail("prop", "estimator-regular integrand: |error| > 4|eps| + rounding",
                            "err=%.3e eps=%.3e rounding=%.3e" % (float(err), eps, KFAM * 2.0 ** -53 * sc)))
    return out


def compare(rq, impl, model, ctx):
    d = parse_rq(rq)
    meta = ctx.get("meta", {}).get(rq, dict(fam="replay"))
    bump(ctx, meta["fam"].split("/")[0] + "/" + meta["fam"].split("/")[1] if "/" in meta["fam"] else meta["fam"])
    fs, both = std_outcome(rq, impl, model)
    if tag(impl) != "ok":
        return fs
    I = parse_impl(impl, d["tr"])
    ctx.setdefault("results", {})[rq] = I
    out = fs + oracle(d, I, ctx)
    a, b = d["a"], d["b"]
    key_excused = False
    if both:
        t = toks(model)
        M = dict(val=fr(t[0]), warn=int(t[1]), n=int(t[2]), sum=fr(t[3]), margin=fr(t[4]), wmargin=fr(t[5]), scale=fr(t[6]))
        M["xs"] = [fr(x) for x in t[7:]] if d["tr"] else None
        exact_fam = meta["fam"].startswith("exact") or meta["fam"].startswith("edge")
        tolx = Fraction(0) if exact_fam else 8 * EPS * max(abs(Fraction(a)), abs(Fraction(b)))
        diverged = None
        if d["tr"] and I["n"] <= TRACE_MAX and M["n"] <= TRACE_MAX:
            # the property constrains WHERE and HOW OFTEN the integrand is evaluated, not in which order
            # (integrate_evals_perm): the sorted multisets of abscissae are compared; the call order is a statistic
            xi, xm = sorted(I["xs"]), sorted(M["xs"])
            for i, (x, m) in enumerate(zip(xi, xm)):
                if abs(Fraction(x) - m) > tolx:
                    diverged = "abscissa %d of the sorted node list: impl %r model %r" % (i, x, float(m)); break
            if diverged is None and I["n"] != M["n"]:
                diverged = "evaluation count impl %d model %d (common sorted prefix agrees)" % (I["n"], M["n"])
            if diverged is None and any(abs(Fraction(x) - m) > tolx for x, m in zip(I["xs"], M["xs"])):
                bump(ctx, "trace: node multiset agrees with the model, call order differs")
        else:
            if I["n"] != M["n"]:
                diverged = "evaluation count impl %d model %d" % (I["n"], M["n"])
            elif abs(Fraction(I["sum"]) - M["sum"]) > I["n"] * (tolx + 4 * EPS * max(abs(Fraction(a)), abs(Fraction(b)))):
                diverged = "sum of abscissae impl %r model %r" % (I["sum"], float(M["sum"]))
        sc = M["scale"]
        if diverged:
            if M["margin"] < MARGIN:
                ctx["excused"] += 1; key_excused = True
                # both are adaptive Simpson results over different panel trees of the same integrand
                if not close(I["val"], M["val"], sc, KVAL * 4, atol=32 * abs(Fraction(d["eps"]))):
                    out.append(fail("corr", "value differs from the model beyond the algorithm's own tolerance (trace diverged at a knife-edge decision)",
                                    "impl=%r model=%r" % (I["val"], float(M["val"]))))
            else:
                out.append(fail("corr", "set of abscissae differs from the model (acceptance decision / recursion)", diverged + " margin=%.3g" % float(M["margin"])))
        else:
            if I["warn"] != M["warn"] and M["wmargin"] >= MARGIN:
                out.append(fail("corr", "non-convergence warning differs from the model", "impl %d model %d" % (I["warn"], M["warn"])))
            if not close(I["val"], M["val"], sc, KVAL):
                r = float(abs(Fraction(I["val"]) - M["val"]) / (EPS * sc)) if sc else -1
                out.append(fail("corr", "value differs from the model on the same panels", "impl=%r model=%r err/(u*scale)=%.3g" % (I["val"], float(M["val"]), r)))
            if sc:
                ctx["maxcorr"] = max(ctx.get("maxcorr", 0), float(abs(Fraction(I["val"]) - M["val"]) / (EPS * sc)))
    if a != b:
        ctx["nontrivial"].add((meta["fam"], a < b, d["depth"], I["n"].bit_length(), I["warn"], key_excused))
    return out


def oracle_only(rq, impl, ctx):
    if tag(impl) != "ok":
        return [fail("prop", "crash/exit on a meaningful request: " + tag(impl), impl[:200])] if crashed(impl) or tag(impl) == "err" else []
    d = parse_rq(rq)
    I = parse_impl(impl, d["tr"])
    ctx.setdefault("results", {})[rq] = I
    return oracle(d, I, ctx)


def finalize(ctx, exe):
    """class D: companions evaluated on the implementation itself (justified by integrate_swap,
    integrate_eps_sign, integrate_eq_limits)."""
    out = []
    res = ctx.get("results", {})
    for rq, meta in ctx.get("meta", {}).items():
        if "base" not in meta or rq not in res or meta["base"] not in res:
            continue
        A, B = res[meta["base"]], res[rq]
        if meta["rel"] == "swap":
            if not (B["val"] == -A["val"] or (A["val"] == 0 and B["val"] == 0)) or B["n"] != A["n"] or (A["xs"] is not None and A["xs"] != B["xs"]):
                out.append(dict(fail("prop", "swapping the limits does not negate the result exactly",
                                     "a->b %r, b->a %r, evaluations %d vs %d" % (A["val"], B["val"], A["n"], B["n"])), req=rq))
        elif meta["rel"] == "nested":
            if not (B["val"] == A["val"] or (math.isnan(A["val"]) and math.isnan(B["val"]))) or B["n"] != A["n"] or B["warn"] != A["warn"] \
                    or (A["xs"] is not None and B["xs"] is not None and A["xs"] != B["xs"]):
                out.append(dict(fail("prop", "the outer integration depends on what the integrand does internally (nested Integrate call with another depth/epsilon)",
                                     "plain: val %r, %d evaluations, warn %d; nested: val %r, %d evaluations, warn %d" % (
                                         A["val"], A["n"], A["warn"], B["val"], B["n"], B["warn"])), req=rq))
        elif meta["rel"] == "hist":
            if not (B["val"] == A["val"] or (math.isnan(A["val"]) and math.isnan(B["val"]))) or B["n"] != A["n"] or B["warn"] != A["warn"] \
                    or (A["xs"] is not None and B["xs"] is not None and A["xs"] != B["xs"]):
                out.append(dict(fail("prop", "Integrate depends on an earlier Find_Epsilon call (same limits, another integrand of the same callable type)",
                                     "plain: val %r, %d evaluations, warn %d; after Find_Epsilon: val %r, %d evaluations, warn %d" % (
                                         A["val"], A["n"], A["warn"], B["val"], B["n"], B["warn"])), req=rq))
        elif meta["rel"] == "negeps":
            if B["val"] != A["val"] or B["n"] != A["n"] or B["warn"] != A["warn"]:
                out.append(dict(fail("prop", "the sign of epsilon changes the result",
                                     "eps %r, -eps %r, evaluations %d vs %d" % (A["val"], B["val"], A["n"], B["n"])), req=rq))
    ctx["stats"]["max err/(u*scale) quintic-exactness"] = round(ctx.get("maxratio", 0), 3)
    ctx["stats"]["max err/(u*scale) value-vs-model"] = round(ctx.get("maxcorr", 0), 3)
    ctx["stats"]["max (err-4|eps|)/(u*scale) regular families"] = round(ctx.get("maxfam", 0), 3)
    ctx["stats"]["max err/|eps| regular families"] = round(ctx.get("maxfameps", 0), 4)
    return out
