"""C15 — QR factors and eigenpairs satisfy their defining equations.

Class B: Householder reflector, Q and R against the Lean model (unique under the coded sign
convention), tolerance scaled by the condition number; eigenvalues of Q·diag(λ)·Qᵀ (Q rational
orthogonal by a Cayley transform, exact in Fraction) against the known λ, the trace and the determinant,
and position by position against the model's own QR iteration.
Property oracle on the implementation's output: ‖QR−M‖, ‖QᵀQ−1‖, R upper triangular; spectrum, sum,
product; for Eigensystem/Eigenvectors ‖Mv−λv‖, unit norm, termination within a time bound.
"""
import math, random
from fractions import Fraction
from common import *

try:
    import numpy as np
except ImportError:          # the tooling interpreter has numpy; fall back to a crude bound otherwise
    np = None

RULE = ("matrices are drawn from VERIF_SEED: sizes 1..7; dense random, graded (condition number up to 1e6, built from exact "
        "rational orthogonal factors), diagonal/triangular/permutation/integer matrices for QR; symmetric Q*diag(lambda)*Q^T with "
        "known lambda (ratios 0.1..0.8 of either sign, diagonal and block-diagonal included) for the eigen routines; a case is "
        "non-trivial when the model answers ok/err and is counted once per distinct (op, size, family, sign pattern / condition decade)")
CORR_ONLY = ["QR factors are compared with the model modulo the sign gauge D = diag(+-1) (column k of Q, row k of R), in the gauge R[k][k] >= 0: "
             "the property does not fix the signs of diag(R) (theorem Lp.C15.qr_sign_gauge)",
             "convergence of the unshifted QR iteration (spectra separated in magnitude): decided against the known spectrum and the model's iteration",
             "termination and accuracy of Find_Eigenvector_Rayleigh / Eigensystem / Eigenvectors: property oracle on the implementation only "
             "(the outcome of inverse iteration with the converged eigenvalue as shift is decided by rounding errors, which the exact model does not have)"]
ASSUMPTIONS = ["the algebraic clauses are stated over Mathlib matrices (every sequence of symmetric orthogonal reflectors) and, end to end, "
               "for the executable list model without rounding (qr_list_model: Q*R = M, Q orthogonal, R upper triangular for every "
               "non-singular matrix; eigenvalues_similar/eigenvalues_trace for the iterates of Eigenvalues); "
               "sqrt enters as a parameter exact at exactly the arguments the run hands to it (qrSqOK / eigSqOK)",
               "Matrix::Inverse (property C05) is a parameter of the Rayleigh model"]
TRUSTED = ["numpy.linalg.cond (2-norm condition number) only to scale the class-B tolerance of Q and R"]

K_QR = 32          # x eps x kappa   (entries of Q; entries of R additionally x max|M|)
K_ORA = 64         # flat: ‖QR−M‖ <= 64 eps max|M|, ‖QᵀQ−1‖ <= 64 eps (audit: worst 24.4 / 20.4 eps); R: exact zeros
K_EIG = 512        # x eps x max|lambda|: absolute accuracy of each eigenvalue
RES_TOL = 1e-8     # ‖Mv−λv‖ / ‖M‖ for eigenpairs (the loop's own tolerance is 1e-10 on the components)


# ---------------------------------------------------------------------------------------------
# exact helpers (Fractions)

def fmat(n, f):
    return [[f(i, j) for j in range(n)] for i in range(n)]


def mmul(A, B):
    n = len(A)
    return [[sum(A[i][k] * B[k][j] for k in range(n)) for j in range(n)] for i in range(n)]


def mT(A):
    return [list(r) for r in zip(*A)]


def minv(A):
    """exact Gauss-Jordan inverse of a Fraction matrix"""
    n = len(A)
    B = [list(A[i]) + [Fraction(int(i == j)) for j in range(n)] for i in range(n)]
    for i in range(n):
        p = next(r for r in range(i, n) if B[r][i] != 0)
        B[i], B[p] = B[p], B[i]
        piv = B[i][i]
        B[i] = [x / piv for x in B[i]]
        for r in range(n):
            if r != i and B[r][i] != 0:
                f = B[r][i]
                B[r] = [x - f * y for x, y in zip(B[r], B[i])]
    return [row[n:] for row in B]


def cayley(rng, n, density=1.0, den=8):
    """exact rational orthogonal matrix (I−S)(I+S)^-1 of a random skew-symmetric S"""
    S = [[Fraction(0)] * n for _ in range(n)]
    for i in range(n):
        for j in range(i + 1, n):
            if rng.random() < density:
                v = Fraction(rng.randint(-den, den), den)
                S[i][j] = v
                S[j][i] = -v
    I = fmat(n, lambda i, j: Fraction(int(i == j)))
    A = [[I[i][j] - S[i][j] for j in range(n)] for i in range(n)]
    B = [[I[i][j] + S[i][j] for j in range(n)] for i in range(n)]
    return mmul(A, minv(B))


def block_diag(blocks):
    n = sum(len(b) for b in blocks)
    M = [[Fraction(0)] * n for _ in range(n)]
    o = 0
    for b in blocks:
        for i in range(len(b)):
            for j in range(len(b)):
                M[o + i][o + j] = b[i][j]
        o += len(b)
    return M


def permute(rng, M):
    n = len(M)
    p = list(range(n))
    rng.shuffle(p)
    return [[M[p[i]][p[j]] for j in range(n)] for i in range(n)]


def det_exact(A):
    n = len(A)
    A = [list(r) for r in A]
    d = Fraction(1)
    for i in range(n):
        p = next((r for r in range(i, n) if A[r][i] != 0), None)
        if p is None:
            return Fraction(0)
        if p != i:
            A[i], A[p] = A[p], A[i]
            d = -d
        d *= A[i][i]
        for r in range(i + 1, n):
            f = A[r][i] / A[i][i]
            if f:
                A[r] = [x - f * y for x, y in zip(A[r], A[i])]
    return d


def cond2(Mf):
    if np is None:
        return 1e6
    try:
        big = max((abs(x) for r in Mf for x in r), default=0.0)
        if big == 0.0:
            return float("inf")
        m, ex = math.frexp(big)
        c = float(np.linalg.cond(np.array([[math.ldexp(x, -ex) for x in r] for r in Mf], dtype=float)))
    except Exception:
        return float("inf")
    return c


def req_matrix(op, Mf):
    n = len(Mf)
    return "%s %d %s" % (op, n, " ".join(hx(x) for r in Mf for x in r))


def parse_matrix(a):
    n = int(a[0])
    e = [fl(t) for t in a[1:1 + n * n]]
    return n, [e[i * n:(i + 1) * n] for i in range(n)]


# ---------------------------------------------------------------------------------------------
# generation

def qr_matrix(rng, k):
    """(matrix of floats, family label)"""
    n = rng.choice([1, 2, 2, 3, 3, 4, 5, 6, 7])
    c = k % 12
    if c == 0:
        d = [rng.choice([-1, 1]) * 10.0 ** rng.uniform(-3, 3) for _ in range(n)]
        return [[d[i] if i == j else 0.0 for j in range(n)] for i in range(n)], "diag"
    if c == 1:
        return [[rng.uniform(-2, 2) if j >= i else 0.0 for j in range(n)] for i in range(n)], "upper"
    if c == 2:
        return [[rng.uniform(-2, 2) if j <= i else 0.0 for j in range(n)] for i in range(n)], "lower"
    if c == 3:
        p = list(range(n)); rng.shuffle(p)
        return [[float(rng.choice([-2, 1, 3])) if p[i] == j else 0.0 for j in range(n)] for i in range(n)], "perm"
    if c == 4:
        while True:
            M = [[float(rng.randint(-4, 4)) for _ in range(n)] for _ in range(n)]
            if det_exact([[Fraction(x) for x in r] for r in M]) != 0:
                return M, "int"
    if c in (5, 6, 7):
        kappa = 10.0 ** rng.choice([1, 2, 3, 4, 5, 6]) if n > 1 else 1.0
        Q1, Q2 = cayley(rng, n), cayley(rng, n)
        sig = [Fraction(kappa ** (-i / max(n - 1, 1))) for i in range(n)]
        scale = Fraction(10.0 ** rng.choice([rng.uniform(-3, 3), rng.uniform(-3, 3), 150, -150, 299, -300 + math.log10(kappa)]))
        D = fmat(n, lambda i, j: sig[i] * scale if i == j else Fraction(0))
        M = mmul(mmul(Q1, D), mT(Q2))
        return [[float(x) for x in r] for r in M], "graded"
    if c == 8:
        M = [[rng.uniform(-1, 1) for _ in range(n)] for _ in range(n)]
        M[0][0] = 0.0                                   # x0 = 0: Sign(norm, -0.0) = -norm
        if n == 1:
            M[0][0] = -1.5
        return M, "x0zero"
    s = 10.0 ** rng.choice([rng.uniform(-6, 6), rng.uniform(-6, 6), 150, -150, 299, -300]) if c == 9 else 1.0
    return [[s * max(-8.0, min(8.0, rng.gauss(0, 1))) for _ in range(n)] for _ in range(n)], "dense"


def graded_column_matrix(rng, k):
    """dense, well-conditioned (kappa < 10): diagonal entries in +-[1,2], a small dense strict upper part, and a strict lower
    part that is non-zero but only 1e-12..1e-7 of the diagonal (so fl(|x|) == |x0| at every elimination step although the
    column is not reduced) — or, every fourth member, exactly reduced leading columns (tail exactly 0)."""
    n = rng.choice([2, 2, 3, 3, 4, 5, 6, 7])
    eps = rng.choice([3e-9, 4e-9, 1e-7, 1e-8, 1e-10, 1e-11, 1e-12, 3e-9])
    M = [[0.0] * n for _ in range(n)]
    for i in range(n):
        for j in range(n):
            if i == j:
                M[i][j] = rng.choice([-1.0, 1.0]) * rng.uniform(1.0, 2.0)
            elif j > i:
                M[i][j] = rng.uniform(-0.25, 0.25)
            else:
                M[i][j] = eps * rng.uniform(0.5, 1.5) * rng.choice([-1.0, 1.0])
    c = k % 4
    fam = "graded-lower"
    if c == 1:                       # only the first column is graded, the rest is dense
        for i in range(n):
            for j in range(1, i):
                M[i][j] = rng.uniform(-0.25, 0.25)
        fam = "graded-first-column"
    elif c == 2 and n >= 3:          # the first column is dense, later columns are graded
        for i in range(1, n):
            M[i][0] = rng.uniform(-0.25, 0.25)
        fam = "graded-later-columns"
    elif c == 3:                     # exactly reduced leading columns: skipping the reflection would be legitimate
        m = rng.randint(1, n)
        for j in range(m):
            for i in range(j + 1, n):
                M[i][j] = 0.0
        fam = "reduced-columns"
    return M, fam


def spectrum(rng, n):
    lam = [rng.choice([-1, 1]) * 10.0 ** rng.uniform(-2, 2)]
    for _ in range(n - 1):
        lam.append(lam[-1] * rng.uniform(0.1, 0.8) * rng.choice([-1, 1]))
    return [Fraction(x) for x in lam]


def sym_matrix(rng, k, nmax=7):
    """symmetric Q diag(lam) Q^T; returns (floats, lam as Fractions, family)"""
    n = rng.choice([1, 2, 2, 3, 3, 4, 4, 5, 6, 7])
    n = min(n, nmax)
    lam = spectrum(rng, n)
    c = k % 6
    if c == 0 or n == 1:
        Q = fmat(n, lambda i, j: Fraction(int(i == j))); fam = "diagonal"
    elif c == 1 and n >= 3:
        m = rng.randint(1, n - 1)
        Q = block_diag([cayley(rng, m), cayley(rng, n - m)]); fam = "block"
    elif c == 2 and n >= 3:
        m = rng.randint(1, n - 1)
        Q = permute(rng, block_diag([cayley(rng, m), cayley(rng, n - m)])); fam = "blockperm"
    elif c == 3:
        Q = cayley(rng, n, density=0.5); fam = "sparse"
    else:
        Q = cayley(rng, n); fam = "dense"
    rng.shuffle(lam)
    D = fmat(n, lambda i, j: lam[i] if i == j else Fraction(0))
    M = mmul(mmul(Q, D), mT(Q))
    Mf = [[float(M[i][j]) if i <= j else float(M[j][i]) for j in range(n)] for i in range(n)]
    return Mf, lam, fam


def sym_from(Q, lam):
    n = len(lam)
    D = fmat(n, lambda i, j: lam[i] if i == j else Fraction(0))
    M = mmul(mmul(Q, D), mT(Q))
    return [[float(M[i][j]) if i <= j else float(M[j][i]) for j in range(n)] for i in range(n)]


def traceless_spectrum(rng, n):
    """n >= 3 rationals of both signs, sum exactly 0, magnitudes separated by ratios in [0.1, 0.8]"""
    while True:
        lam = [Fraction(rng.choice([-1, 1]) * rng.randint(16, 160), 16)]
        for _ in range(n - 2):
            lam.append(lam[-1] * Fraction(rng.randint(2, 12), 16) * rng.choice([-1, 1]))
        lam.append(-sum(lam))
        mags = sorted((abs(x) for x in lam), reverse=True)
        if mags[-1] > 0 and all(Fraction(1, 10) <= mags[i + 1] / mags[i] <= Fraction(4, 5) for i in range(n - 1)):
            return lam


def singular_matrix(rng, k):
    """singular square matrices (since e9c6d4b QR_Decomposition returns finite factors with some R[k][k] = 0)"""
    n = rng.choice([1, 2, 2, 3, 3, 4, 5, 6, 7])
    c = k % 6
    if c == 0 or n == 1:
        M = [[rng.uniform(-2, 2) for _ in range(n)] for _ in range(n)]
        j = rng.randrange(n)
        for i in range(n):
            M[i][j] = 0.0                                   # a zero column (first, middle or last)
        return M, "sing-zerocol"
    if c == 1:
        M = [[float(rng.randint(-4, 4)) for _ in range(n)] for _ in range(n)]
        a, b = rng.sample(range(n), 2)
        for i in range(n):
            M[i][b] = 2.0 * M[i][a]                         # exactly dependent columns
        return M, "sing-dependent"
    if c == 2:
        d = [rng.choice([0.0, 0.0, 1.0, -2.0, 3.0]) for _ in range(n)]
        d[rng.randrange(n)] = 0.0
        return [[d[i] if i == j else 0.0 for j in range(n)] for i in range(n)], "sing-diag"
    if c == 3:
        Q1, Q2 = cayley(rng, n), cayley(rng, n)
        sig = [Fraction(rng.randint(1, 8)) for _ in range(n)]
        for i in rng.sample(range(n), rng.randint(1, max(1, n // 2))):
            sig[i] = Fraction(0)
        D = fmat(n, lambda i, j: sig[i] if i == j else Fraction(0))
        M = mmul(mmul(Q1, D), mT(Q2))
        return [[float(x) for x in r] for r in M], "sing-dense"      # rounded: numerically singular
    if c == 4:
        u = [float(rng.randint(-3, 3)) for _ in range(n)]
        v = [float(rng.randint(-3, 3)) for _ in range(n)]
        return [[u[i] * v[j] for j in range(n)] for i in range(n)], "sing-rank1"
    return [[0.0] * n for _ in range(n)], "sing-zero"


def zero_eigenvalue_family(rng, nrandom):
    """symmetric matrices with an eigenvalue exactly 0 (exact members) or ~1e-17 (dense rational Q, rounded entries)"""
    F = Fraction
    out = []
    for M, lam in (([[1.0, 0.0], [0.0, 0.0]], [F(1), F(0)]), ([[1.0, 1.0], [1.0, 1.0]], [F(2), F(0)]),
                   ([[2.0, 0.0, 0.0], [0.0, 1.0, 0.0], [0.0, 0.0, 0.0]], [F(2), F(1), F(0)]),
                   ([[4.0, 2.0], [2.0, 1.0]], [F(5), F(0)])):
        out.append((M, lam, "zeroeig-exact"))
    for n in range(1, 5):                                   # the zero matrix: 0/0 in the convergence test before 0850cf3
        out.append(([[0.0] * n for _ in range(n)], [F(0)] * n, "zeroeig-zero-matrix"))
    out.append(([[0.0, 0.0], [0.0, -0.0]], [F(0), F(0)], "zeroeig-zero-matrix"))
    for k in range(nrandom):
        n = rng.choice([2, 3, 3, 4, 5, 6, 7])
        lam = sorted(spectrum(rng, n - 1), key=abs, reverse=True) + [F(0)]
        c = k % 3
        if c == 0:
            Q = fmat(n, lambda i, j: F(int(i == j))); fam = "zeroeig-diagonal"
        elif c == 1 and n >= 4:
            m = n // 2
            Q = block_diag([cayley(rng, m), cayley(rng, n - m)]); fam = "zeroeig-block"
        else:
            Q = cayley(rng, n); fam = "zeroeig-dense"
        out.append((sym_from(Q, lam), lam, fam))
    return out


def checkerboard_family(rng, nrandom):
    """symmetric matrices that couple only indices of equal parity (two dense blocks on the even and on the odd indices,
    exact zeros elsewhere): the first sub-diagonal is exactly zero throughout the iteration, the convergence is decided by
    the entries two below the diagonal — the whole lower triangle belongs to the convergence test.  Deterministic members
    first, then random ones; each block carries its eigenvalues in decreasing magnitude."""
    out = []
    F = Fraction
    det = random.Random(15016)

    def member(r, lam_even, lam_odd):
        ne, no = len(lam_even), len(lam_odd)
        n = ne + no
        B = block_diag([cayley(r, ne), cayley(r, no)]) if min(ne, no) >= 1 else None
        lam = list(lam_even) + list(lam_odd)
        D = fmat(n, lambda i, j: lam[i] if i == j else F(0))
        Mb = mmul(mmul(B, D), mT(B))
        pos = [2 * i for i in range(ne)] + [2 * i + 1 for i in range(no)]     # block index -> matrix index
        inv = {pos[k]: k for k in range(n)}
        M = [[Mb[inv[i]][inv[j]] for j in range(n)] for i in range(n)]
        Mf = [[float(M[i][j]) if i <= j else float(M[j][i]) for j in range(n)] for i in range(n)]
        return Mf, lam, "checkerboard"

    out.append(member(det, [F(12), F(-3, 2)], [F(-13, 10), F(1, 4)]))
    out.append(member(det, [F(6), F(4)], [F(-5, 2)]))
    out.append(member(det, [F(8), F(-5), F(3)], [F(6), F(-4), F(2)]))
    for _ in range(nrandom):
        n = rng.choice([3, 4, 4, 5, 6, 7])
        lam = sorted(spectrum(rng, n), key=abs, reverse=True)
        ne = (n + 1) // 2
        idx = list(range(n)); rng.shuffle(idx)
        ev_, od_ = sorted(idx[:ne]), sorted(idx[ne:])
        out.append(member(rng, [lam[i] for i in ev_], [lam[i] for i in od_]))
    return out


def traceless_family(rng, nrandom):
    """(matrix, spectrum, family) — deterministic members first (independent of VERIF_SEED), then random ones.
    A generic dense rational orthogonal Q (or dense blocks with exact zeros between them, or no Q at all) is
    applied with the largest eigenvalues first, so the iteration does not start near an unsorted fixed point."""
    out = []
    det = random.Random(15015)
    F = Fraction
    fixed = [[F(5), F(-4), F(-1)], [F(5), F(-4), F(-8, 5), F(3, 5)], [F(8), F(-6), F(-4), F(3), F(-3, 2), F(1, 2)],
             [F(3), F(-2), F(-1)], [F(16), F(-12), F(-8), F(5), F(-5, 2), F(2), F(-1, 2)]]
    for lam in fixed:
        n = len(lam)
        out.append((sym_from(fmat(n, lambda i, j: F(int(i == j))), lam), lam, "traceless-diagonal"))
        out.append((sym_from(cayley(det, n), lam), lam, "traceless-dense"))
        if n >= 4:
            m = n // 2
            # each block gets eigenvalues in decreasing magnitude; blocks are coupled by exact zeros only
            out.append((sym_from(block_diag([cayley(det, m), cayley(det, n - m)]), lam), lam, "traceless-block"))
    for k in range(nrandom):
        n = rng.choice([3, 3, 4, 4, 5, 6, 7])
        lam = sorted(traceless_spectrum(rng, n), key=abs, reverse=True)
        c = k % 4
        if c == 0:
            Q = fmat(n, lambda i, j: F(int(i == j))); fam = "traceless-diagonal"
        elif c == 1 and n >= 4:
            m = rng.randint(2, n - 2)
            Q = block_diag([cayley(rng, m), cayley(rng, n - m)]); fam = "traceless-block"
        else:
            Q = cayley(rng, n); fam = "traceless-dense"
        if k % 3 == 2:      # nearly traceless: the sum is ~1e-9 of sum|lambda|
            lam = list(lam)
            lam[0] = lam[0] + sum(abs(x) for x in lam) * F(rng.randint(1, 9), 10 ** 9)
            fam += "-near"
        out.append((sym_from(Q, lam), lam, fam))
    return out


def generate(tier, seed, ctx):
    rng = random.Random(seed * 15485863 + 15)
    thorough = tier == "thorough"
    R = []
    meta = ctx.setdefault("c15_meta", {})
    for k in range(1500 if thorough else 260):
        M, fam = qr_matrix(rng, k)
        R.append(req_matrix("c15.qr", M)); meta[R[-1]] = ("qr", fam)
        if k % 3 == 0:
            R.append(req_matrix("c15.householder", M)); meta[R[-1]] = ("hh", fam)
    for k in range(240 if thorough else 48):
        M, fam = graded_column_matrix(rng, k)
        R.append(req_matrix("c15.qr", M)); meta[R[-1]] = ("qr", fam)
    # structured matrices: +-identity, entries -0.0, Hilbert matrices, sparse integer matrices
    for n in range(1, 6):
        I = [[float(i == j) for j in range(n)] for i in range(n)]
        R.append(req_matrix("c15.qr", I)); meta[R[-1]] = ("qr", "identity")
        R.append(req_matrix("c15.qr", [[-x for x in r] for r in I])); meta[R[-1]] = ("qr", "neg-identity")   # off-diagonal entries are -0.0
        H = [[1.0 / (i + j + 1) for j in range(n)] for i in range(n)]
        R.append(req_matrix("c15.qr", H)); meta[R[-1]] = ("qr", "hilbert")
    for k in range(20 if thorough else 6):
        n = rng.randint(2, 7)
        while True:
            S = [[float(rng.choice([0, 0, 0, 1, -1, 2, -3])) for _ in range(n)] for _ in range(n)]
            if det_exact([[Fraction(x) for x in r] for r in S]) != 0:
                break
        if k % 2:
            S = [[(-0.0 if x == 0 and rng.random() < 0.5 else x) for x in r] for r in S]
        R.append(req_matrix("c15.qr", S)); meta[R[-1]] = ("qr", "sparse-int")
    # singular matrices: finite factors, Q*R = M, Q orthogonal, R upper triangular (e9c6d4b)
    for n in range(1, 5):
        R.append(req_matrix("c15.qr", [[0.0] * n for _ in range(n)])); meta[R[-1]] = ("qr", "sing-zero")
    R.append(req_matrix("c15.qr", [[1.0, 2.0], [2.0, 4.0]])); meta[R[-1]] = ("qr", "sing-dependent")
    for k in range(180 if thorough else 36):
        M, fam = singular_matrix(rng, k)
        R.append(req_matrix("c15.qr", M)); meta[R[-1]] = ("qr", fam)
        if k % 3 == 0:
            R.append(req_matrix("c15.householder", M)); meta[R[-1]] = ("hh", fam)
    # a zero eigenvalue (e9c6d4b: the last pivot column of the iterates vanishes)
    for M, lam, fam in zero_eigenvalue_family(rng, 60 if thorough else 12):
        R.append(req_matrix("c15.spectrum", M)); meta[R[-1]] = ("eig", fam, lam)
    for k in range(500 if thorough else 50):
        M, lam, fam = sym_matrix(rng, k)
        R.append(req_matrix("c15.spectrum", M)); meta[R[-1]] = ("eig", fam, lam)
    # traceless / nearly traceless spectra (eigenvalues of both signs summing to 0 or to ~1e-9 of sum|lambda|): the
    # convergence test must be normalised by sum|A_jj|, not by the trace
    for M, lam, fam in traceless_family(rng, 60 if thorough else 14):
        R.append(req_matrix("c15.spectrum", M)); meta[R[-1]] = ("eig", fam, lam)
    # only equal-parity indices coupled: the first sub-diagonal is exactly zero, the test must look at the whole lower triangle
    for M, lam, fam in checkerboard_family(rng, 40 if thorough else 9):
        R.append(req_matrix("c15.spectrum", M)); meta[R[-1]] = ("eig", fam, lam)
    # the repository's own test matrix
    T3 = [[2.0, -1.0, 0.0], [-1.0, 2.0, -1.0], [0.0, -1.0, 2.0]]
    T3lam = [Fraction(2.0), Fraction(2.0 - math.sqrt(2.0)), Fraction(2.0 + math.sqrt(2.0))]
    R.append(req_matrix("c15.spectrum", T3)); meta[R[-1]] = ("eig", "repo-test", T3lam)
    # minimal instance of the recorded finding: eigenvalues 0.8 and 1 (ratio 0.8), started 1e-10 away from the unsorted
    # fixed point diag(0.8, 1): the sub-diagonal entry first grows by 1/0.8 per step, then decays by 0.8 per step,
    # which takes more than the 200 steps allowed (the exact model agrees: err)
    S2 = [[0.8, 1e-10], [1e-10, 1.0]]
    R.append(req_matrix("c15.spectrum", S2)); meta[R[-1]] = ("eig", "slow-swap", [Fraction(0.8), Fraction(1.0)])
    for k in range(160 if thorough else 24):
        M, lam, fam = sym_matrix(rng, k, nmax=5)
        op = "c15.eigensystem" if k % 3 else "c15.eigenvectors"
        R.append(req_matrix(op, M)); meta[R[-1]] = ("sys", fam, lam)
    R.append(req_matrix("c15.eigensystem", T3)); meta[R[-1]] = ("sys", "repo-test", T3lam)
    R.append(req_matrix("c15.eigensystem", [[2.0, 0.0], [0.0, 1.0]])); meta[R[-1]] = ("sys", "diagonal", [Fraction(2), Fraction(1)])
    return R


# ---------------------------------------------------------------------------------------------
# comparison

def _absmax(M):
    return max((abs(x) for r in M for x in r), default=0.0)


def oracle_qr(n, M, Q, R):
    """property clauses evaluated exactly on the implementation's Q, R"""
    out = []
    Mq = [[Fraction(x) for x in r] for r in M]
    Qq = [[Fraction(x) for x in r] for r in Q]
    Rq = [[Fraction(x) for x in r] for r in R]
    nm = Fraction(_absmax(M)) or Fraction(1)
    P = mmul(Qq, Rq)
    dev = max(abs(P[i][j] - Mq[i][j]) for i in range(n) for j in range(n))
    if dev > K_ORA * EPS * nm:
        out.append(("QR_Decomposition: Q*R is not the matrix", "max dev %.3g (max|M| %.3g)" % (float(dev), float(nm))))
    G = mmul(mT(Qq), Qq)
    dev = max(abs(G[i][j] - int(i == j)) for i in range(n) for j in range(n))
    if dev > K_ORA * EPS:
        out.append(("QR_Decomposition: Q is not orthogonal (Q^T Q != 1)", "max dev %.3g" % float(dev)))
    low = max((abs(Rq[i][j]) for i in range(n) for j in range(i)), default=Fraction(0))
    if low != 0:          # the code assigns 0.0 below the diagonal: exact
        out.append(("QR_Decomposition: R is not upper triangular", "max sub-diagonal entry %.3g (max|M| %.3g)" % (float(low), float(nm))))
    return out


def _qr_gauge(n, vals):
    """flat [Q (n*n), R (n*n)] -> the same factorisation with column k of Q and row k of R negated wherever R[k][k] < 0
    (R[k][k] = 0 exactly is left as it is); returns (values, tuple of the signs applied)"""
    vals = list(vals)
    signs = []
    for k in range(n):
        if vals[n * n + k * n + k] < 0:
            signs.append(-1)
            for i in range(n):
                vals[i * n + k] = -vals[i * n + k]
            for j in range(n):
                vals[n * n + k * n + j] = -vals[n * n + k * n + j]
        else:
            signs.append(1)
    return vals, tuple(signs)


def _finite(v):
    return all(not (math.isnan(x) or math.isinf(x)) for x in v)


def _spectrum_check(vals, lam, Mf, what):
    """multiset of eigenvalues against the known spectrum, the trace and the determinant"""
    out = []
    n = len(lam)
    lmax = max(abs(x) for x in lam)
    tol = K_EIG * EPS * lmax
    got = sorted(Fraction(v) for v in vals)
    exp = sorted(lam)
    if len(got) != n:
        return [(what + ": wrong number of eigenvalues", "%d vs %d" % (len(got), n))]
    dev = max(abs(g - e) for g, e in zip(got, exp))
    if dev > tol:
        out.append((what + ": the values are not the spectrum of the matrix", "max dev %.3g (max|lambda| %.3g): %s vs %s" % (
            float(dev), float(lmax), [float(g) for g in got], [float(e) for e in exp])))
    tr = sum(Fraction(Mf[i][i]) for i in range(n))
    if abs(sum(got) - tr) > tol:
        out.append((what + ": the values do not sum to the trace", "%.17g vs %.17g" % (float(sum(got)), float(tr))))
    det = Fraction(1)
    for e in lam:
        det *= e
    prod = Fraction(1)
    for g in got:
        prod *= g
    # first-order propagation of an absolute error `tol` in each factor
    ptol = Fraction(0)
    for i in range(len(lam)):
        pr = Fraction(1)
        for j, e in enumerate(lam):
            if j != i:
                pr *= abs(e)
        ptol += pr
    ptol = ptol * tol * 2
    if abs(prod - det) > ptol:
        out.append((what + ": the values do not multiply to the determinant", "%.17g vs %.17g" % (float(prod), float(det))))
    return out


def compare(rq, impl, model, ctx):
    op = rq.split(" ", 1)[0]
    a = rq.split()[1:]
    bump(ctx, op)
    meta = ctx.get("c15_meta", {}).get(rq)
    n, M = parse_matrix(a)
    if op in ("c15.eigensystem", "c15.eigenvectors"):
        return compare_system(op, rq, n, M, impl, meta, ctx)
    if op == "c15.spectrum":
        return compare_spectrum(rq, n, M, impl, model, meta, ctx)
    fs, both = std_outcome(rq, impl, model)
    if tag(model) in ("ok", "err"):
        ctx["nontrivial"].add(_key(op, n, M, meta, model))
    if not both:
        return fs
    ti, tm = toks(impl), toks(model)
    out = []
    if "shape" in ti:
        return fs + [fail("prop", op[4:] + ": result does not have the shape of the argument", impl[:200])]
    if op == "c15.householder":
        H = [fl(t) for t in ti]
        Hm = [fr(t) for t in tm]
        if not _finite(H):
            return fs + [fail("prop", "Householder_Matrix: non-finite entry", impl[:200])]
        Hq = [[Fraction(H[i * n + j]) for j in range(n)] for i in range(n)]
        tol = K_ORA * n * EPS
        G = mmul(Hq, Hq)
        if max(abs(G[i][j] - int(i == j)) for i in range(n) for j in range(n)) > tol or \
                max(abs(Hq[i][j] - Hq[j][i]) for i in range(n) for j in range(n)) > tol:
            out.append(fail("prop", "Householder_Matrix: not a symmetric orthogonal matrix", ""))
        x = [Fraction(M[i][0]) for i in range(n)]
        y = [sum(Hq[i][k] * x[k] for k in range(n)) for i in range(n)]
        nx2 = sum(t * t for t in x)
        sc = max(abs(t) for t in x) * n if nx2 else Fraction(1)      # >= |x|, exact (no float under/overflow at 1e+-300)
        if any(abs(y[i]) > tol * sc * 4 for i in range(1, n)) or abs(y[0] * y[0] - nx2) > 8 * tol * nx2:
            out.append(fail("prop", "Householder_Matrix: the first column is not mapped to a multiple +-|x|*e1 of the first unit vector", ""))
        elif (x[0] != 0 and (y[0] > 0) == (x[0] > 0)) or (x[0] == 0 and y[0] > 0):
            # a valid reflector with the other sign: the property is not violated, the coded convention is
            out.append(fail("corr", "Householder_Matrix: sign convention alpha = -sign(x0)*|x| not followed", ""))
        if not out and not all(close(h, m, 1, K_QR) for h, m in zip(H, Hm)):
            out.append(fail("corr", "householder differs from the model", ""))
    elif op == "c15.qr":
        v = [fl(t) for t in ti]
        kappa = cond2(M)
        if kappa > 1e12:
            # (numerically) singular: since e9c6d4b the factors are finite and the three clauses still hold (some R[k][k] = 0);
            # only the entry-wise comparison with the model is not meaningful (the factors are not unique)
            bump(ctx, "qr.singular")
            if len(v) != 2 * n * n or not _finite(v):
                return fs + [fail("prop", "QR_Decomposition: non-finite entry for a singular matrix (zero pivot column)", impl[:200])]
            Q = [v[i * n:(i + 1) * n] for i in range(n)]
            Rm = [v[n * n + i * n:n * n + (i + 1) * n] for i in range(n)]
            return fs + [fail("prop", clause, det) for clause, det in oracle_qr(n, M, Q, Rm)]
        if len(v) != 2 * n * n or not _finite(v):
            return fs + [fail("prop", "QR_Decomposition: non-finite entry for a non-singular matrix", impl[:200])]
        Q = [v[i * n:(i + 1) * n] for i in range(n)]
        Rm = [v[n * n + i * n:n * n + (i + 1) * n] for i in range(n)]
        for clause, det in oracle_qr(n, M, Q, Rm):
            out.append(fail("prop", clause, det))
        bump(ctx, "qr.kappa.1e%d" % int(min(16, math.log10(max(kappa, 1.0)))))
        if not out and kappa <= 1e7:
            vm = [fr(t) for t in tm]
            # The property fixes Q*R, Q^T Q and the triangular shape, not the signs of diag(R): (Q D)(D R) = Q R for every
            # D = diag(+-1) (Lean: Lp.C15.qr_sign_gauge).  Both answers are compared in the gauge R[k][k] >= 0.
            v, sg_i = _qr_gauge(n, v)
            vm, sg_m = _qr_gauge(n, vm)
            if sg_i != sg_m:
                bump(ctx, "qr.sign_gauge_differs_from_model")
            kq = Fraction(kappa)
            nm = Fraction(_absmax(M))
            worst = 0.0
            for idx, (x, m) in enumerate(zip(v, vm)):
                scale = kq * n if idx < n * n else kq * n * nm
                d = abs(Fraction(x) - m)
                if scale:
                    worst = max(worst, float(d / (EPS * scale)))
                if d > K_QR * EPS * scale:
                    out.append(fail("corr", "%s entry %d differs from the model" % ("Q" if idx < n * n else "R", idx % (n * n)),
                                    "%r vs %.17g (kappa %.3g)" % (x, float(m), kappa)))
                    break
            key = "maxerr_eps_kappa.qr"
            if worst > ctx["stats"].get(key, 0):
                ctx["stats"][key] = round(worst, 3)
    return fs + out


def _components(n, M):
    """connected components of the pattern of exactly non-zero off-diagonal entries (the iteration acts on each separately,
    in exact and in floating-point arithmetic alike: exact zeros stay exact zeros)"""
    comp = list(range(n))

    def find(i):
        while comp[i] != i:
            comp[i] = comp[comp[i]]
            i = comp[i]
        return i
    for i in range(n):
        for j in range(i):
            if M[i][j] != 0 or M[j][i] != 0:
                comp[find(i)] = find(j)
    groups = {}
    for i in range(n):
        groups.setdefault(find(i), []).append(i)
    return list(groups.values())


def _unsorted_fixed_point(n, M, mvals):
    """the model's converged diagonal is not in descending magnitude within some irreducible block"""
    if len(mvals) != n:
        return False
    for idx in _components(n, M):
        v = [abs(mvals[i]) for i in idx]
        if any(v[i] < v[i + 1] for i in range(len(v) - 1)):
            return True
    return False


def compare_spectrum(rq, n, M, impl, model, meta, ctx):
    """Eigenvalues.  Convergence is correspondence/oracle-only and sensitive to rounding for matrices with
    invariant coordinate subspaces (the exact iteration stays near an unsorted fixed point that rounding
    errors leave sooner or later), so the outcome tag and the order of the values are not compared
    strictly: the implementation is judged by the spectrum oracle, the model's iteration is an extra
    positional reference where it converged to the same order."""
    out = []
    lam = meta[2] if meta and meta[0] == "eig" else None
    ti, tm = tag(impl), tag(model)
    if tm in ("bad-op", "bad-args", "driver-no-answer") or ti in ("bad-op", "bad-args"):
        return [fail("corr", "protocol", "impl=%s model=%s" % (ti, tm))]
    if crashed(impl):
        return [fail("prop", "Eigenvalues: crash/sanitizer/silent exit: " + ti, impl[:200])]
    if tm in ("ok", "err"):
        ctx["nontrivial"].add(_key("c15.spectrum", n, M, meta, model))
    if ti == "err":
        if lam is None and tm != "ok":
            return []
        msteps = int(toks(model)[-1]) if tm == "ok" else None
        unsorted = False
        if tm == "ok":
            mt = toks(model)
            unsorted = _unsorted_fixed_point(n, M, [fr(x) for x in mt[1:1 + int(mt[0])]])
        if unsorted:
            # The exact iteration of the coded algorithm ended at an UNSORTED fixed point inside an irreducible block (its
            # diagonal is not in descending magnitude): it keeps an invariant subspace exactly, rounding errors leave it and
            # the rounded iteration then has to pass it slowly — the recorded slow-swap finding, not a new one.
            bump(ctx, "eig.slow_swap_model_unsorted")
            return [fail("prop", "Eigenvalues: stopped with 'did not converge in 200 steps' on a symmetric matrix whose eigenvalues are separated in magnitude",
                         "model: ok after %d steps at an unsorted fixed point %s" % (msteps, [float(fr(x)) for x in mt[1:1 + int(mt[0])]]))]
        if msteps is not None and msteps <= 150:
            # the coded iteration converges in exact arithmetic with a wide margin: not the slow passage past an
            # unsorted fixed point (recorded finding), the implementation's convergence test / loop is at fault
            what = "a traceless" if meta and str(meta[1]).startswith("traceless") else "a"
            return [fail("prop", "Eigenvalues: did not return the spectrum of %s symmetric matrix on which the coded iteration converges "
                                 "(stopped with 'did not converge in 200 steps')" % what, "the exact model converges after %d steps" % msteps)]
        return [fail("prop", "Eigenvalues: stopped with 'did not converge in 200 steps' on a symmetric matrix whose eigenvalues are separated in magnitude",
                     "model: " + (tm if msteps is None else "ok after %d steps" % msteps))]
    if ti == "err-other":
        return [fail("prop", "Eigenvalues: stopped with an unexpected diagnostic (not 'did not converge')", impl[:200])]
    if ti != "ok":
        return [fail("corr", "unknown harness tag " + ti, "")]
    t = toks(impl)
    k = int(t[0])
    vals = [fl(x) for x in t[1:1 + k]]
    if tm == "undef" and lam is None:
        return []
    if not _finite(vals):
        return [fail("prop", "Eigenvalues: non-finite value", impl[:200])]
    mvals = None
    if tm == "ok":
        mt = toks(model)
        mvals = [fr(x) for x in mt[1:1 + int(mt[0])]]
        bump(ctx, "eig.steps.%d0s" % (int(mt[-1]) // 10))
    if lam is None:
        lam = mvals                 # replay without generator metadata: the model's converged iteration is the reference
    if lam is None:
        return []
    for clause, det in _spectrum_check(vals, lam, M, "Eigenvalues"):
        out.append(fail("prop", clause, det))
    if out:
        return out
    lmax = max(abs(x) for x in lam)
    if mvals is None:
        ctx["excused"] += 1
        bump(ctx, "eig.model_noconv_impl_ok")
    elif len(mvals) == k and all(abs(Fraction(x) - m) <= K_EIG * EPS * lmax for x, m in zip(vals, mvals)):
        worst = max(float(abs(Fraction(x) - m) / (EPS * lmax)) for x, m in zip(vals, mvals)) if lmax else 0.0
        if worst > ctx["stats"].get("maxerr_eps_lmax.eig", 0):
            ctx["stats"]["maxerr_eps_lmax.eig"] = round(worst, 3)
    elif len(mvals) == k and all(abs(a - b) <= K_EIG * EPS * lmax for a, b in zip(sorted(Fraction(x) for x in vals), sorted(mvals))):
        ctx["excused"] += 1
        bump(ctx, "eig.order_differs_from_model")
    else:
        out.append(fail("corr", "Eigenvalues: values differ from the model's QR iteration", "%s vs %s" % (vals, [float(m) for m in mvals])))
    return out


def compare_system(op, rq, n, M, impl, meta, ctx):
    """Eigensystem / Eigenvectors: property oracle on the implementation only.  Every clause text starts
    with 'Eigensystem/Eigenvectors' (known finding matched by call site, see DESIGN.md §6 C15)."""
    P = "Eigensystem/Eigenvectors: "
    fam = meta[1] if meta else "fixed"
    ctx["nontrivial"].add((op, n, fam))
    t = tag(impl)
    bump(ctx, "sys.outcome." + t)
    if t == "timeout":
        return [fail("prop", P + "did not terminate within the time bound (1 s) on a symmetric matrix with separated eigenvalues", "")]
    if t == "err":
        return [fail("prop", P + "stopped with a diagnostic on a symmetric matrix with separated eigenvalues (Inverse of the shifted matrix)", "")]
    if t == "err-other":
        return [fail("prop", P + "stopped with an unexpected diagnostic (neither Matrix::Inverse nor 'did not converge')", impl[:200])]
    if t != "ok":
        return [fail("prop", P + "crash/sanitizer/silent exit: " + t, impl[:200])]
    ts = toks(impl)
    out = []
    pos = 0
    lams = None
    if op == "c15.eigensystem":
        k = int(ts[0]); lams = [fl(x) for x in ts[1:1 + k]]; pos = 1 + k
    nv = int(ts[pos]); pos += 1
    vecs = []
    for _ in range(nv):
        m = int(ts[pos]); vecs.append([fl(x) for x in ts[pos + 1:pos + 1 + m]]); pos += 1 + m
    if ts[pos] != "same":
        out.append(fail("prop", P + "the matrix argument (non-const reference) was modified", ""))
    if nv != n or any(len(v) != n for v in vecs) or (lams is not None and len(lams) != n):
        return out + [fail("prop", P + "wrong number or dimension of eigenpairs", impl[:200])]
    if not all(_finite(v) for v in vecs) or (lams is not None and not _finite(lams)):
        return out + [fail("prop", P + "non-finite component in an eigenpair", impl[:300])]
    nm = _absmax(M) or 1.0
    worst = 0.0
    for i, v in enumerate(vecs):
        nrm = math.sqrt(sum(x * x for x in v))
        if abs(nrm - 1) > 1e-9:
            out.append(fail("prop", P + "eigenvector is not a unit vector", "|v|=%r" % nrm)); break
        Mv = [sum(M[r][c] * v[c] for c in range(n)) for r in range(n)]
        lam = lams[i] if lams is not None else sum(a * b for a, b in zip(v, Mv))
        res = max(abs(Mv[r] - lam * v[r]) for r in range(n)) / nm
        worst = max(worst, res)
        if res > RES_TOL:
            out.append(fail("prop", P + "M*v is not lambda*v (stopped unconverged)", "pair %d: residual/|M| = %.3g, lambda = %r" % (i, res, lam))); break
    if lams is not None and meta and meta[0] == "sys" and not out:
        for clause, det in _spectrum_check(lams, meta[2], M, P + "eigenvalues"):
            # the Rayleigh loop overwrites the eigenvalues: a different eigenvalue can be returned twice
            out.append(fail("prop", clause, det))
    if not out:
        bump(ctx, "sys.correct")
    return out


def _key(op, n, M, meta, model):
    fam = meta[1] if meta else "fixed"
    if op == "c15.spectrum":
        return (op, n, fam, tag(model), tuple(M[i][i] > 0 for i in range(min(n, 3))))
    x0 = M[0][0]
    return (op, n, fam, tag(model), (x0 > 0) - (x0 < 0))


def oracle_only(rq, impl, ctx):
    op = rq.split(" ", 1)[0]
    a = rq.split()[1:]
    n, M = parse_matrix(a)
    if op in ("c15.eigensystem", "c15.eigenvectors"):
        return compare_system(op, rq, n, M, impl, ctx.get("c15_meta", {}).get(rq), ctx)
    if crashed(impl):
        return [fail("prop", "crash/sanitizer/silent exit: " + tag(impl), impl[:200])]
    if op == "c15.qr" and tag(impl) == "ok":
        v = [fl(t) for t in toks(impl) if t != "shape"]
        if len(v) == 2 * n * n and _finite(v):
            Q = [v[i * n:(i + 1) * n] for i in range(n)]
            Rm = [v[n * n + i * n:n * n + (i + 1) * n] for i in range(n)]
            return [fail("prop", c, d) for c, d in oracle_qr(n, M, Q, Rm)]
    return []
