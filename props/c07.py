"""C07 — every distribution's density, CDF, quantile and likelihood are mutually coherent (Statistics.cpp §1,§2,§6).

The Lean driver runs the model under two different instantiations of the transcendental parameters:
answers that do not depend on them (guards, support branches, the whole uniform family, the binomial
mass function and CDF with exact integer powers) come back as exact rationals (`ok const v`) and are
compared exactly / to a few ulp; the others come back as `ok glue` and the implementation is compared
with the *definition* evaluated by mpmath at 50 digits (class B).  The property's own clauses
(non-negativity, range, monotone CDFs on sorted grids, CDF differences = integral / sum of the density,
quantiles invert, likelihood = mass function, KDE non-negative and normalised) are evaluated on the
implementation's output (kind "prop").
"""
import math, os, random, sys
from fractions import Fraction
from common import *

if hasattr(sys, "set_int_max_str_digits"):
    sys.set_int_max_str_digits(0)
try:
    import mpmath
    mpmath.mp.dps = 50
    mpf = mpmath.mpf
except ImportError:
    mpmath = None

RULE = ("requests are drawn from VERIF_SEED: parameters on both sides of every branch, support boundaries, far tails; "
        "Poisson means 1e-3..1e3, counts 0..500, binomial trials 0..170 (and up to 400), dof 0..400, "
        "chi-bar weight vectors, sorted argument grids per family; a case is non-trivial when the model answers ok/err and is "
        "counted once per distinct (op, outcome/branch, magnitude class of the parameters) key")
CORR_ONLY = ["CDF_Maxwell_Boltzmann: agreement of the series branch (x/a < 0.1) with the closed form at the switch point and monotonicity across it "
             "(a statement about erf/exp: pairs 1e-8 apart straddling x/a = 0.1 at the rounding noise of the closed form)",
             "CDF_Poisson = sum of PMF_Poisson (goes through the numerical GammaQ): vs mpmath at 1e-12 (counts<100) / 1e-3",
             "CDF = integral of the density for Gauss / chi-square / Maxwell-Boltzmann / exponential: mpmath.quad of the definition",
             "Inv_CDF_Poisson, Quantile_Gauss accuracy (1e-7 through Inv_GammaQ for every count; 1e-4 through Inv_Erf)",
             "far tails; KDE tabulated values vs the definition; KDE normalisation through Interpolation::Integrate at 1e-12 (fix f8bedae)"]
ASSUMPTIONS = ["exp/log/sqrt/erf/pow of libm approximate the real functions (parameters of the model)",
               "rounding slack (documented, minimal): PMF/CDF_Binomial get the denormal spacing 2^-1074 times the other factors as absolute "
               "slack when a factor p^x or (1-p)^(t-x) underflows to a denormal",
               "Gamma, GammaQ, GammaP, Inv_GammaQ, Inv_Erf are the functions of property C06/C17 (parameters of the model)"]
TRUSTED = ["mpmath 1.3 at 50 digits (exp, log, erf, erfinv, gamma, loggamma, gammainc, quad) as a validated-not-verified "
           "reference of the definitions; self-test in finalize"]

EPSF = 2.0 ** -53
ASSUMPTIONS += ["KDE with a MANUAL bandwidth below 1/64 of the spacing of its 150-point table is excluded (an automatic one falls back to one spacing, fix d44bb3e): every tabulated value can underflow to zero and "
                "no table can be normalised then (the generator goes down to 0.047 table spacings)",
                "Likelihood_Poisson with s+b = 0 and n > 0 (log-likelihood -inf, likelihood 0 = PMF_Poisson(0,n)) is not compared with the model (outside exact arithmetic)"]
ASSUMPTIONS += ["CDF_Poisson / CDF_Chi_Square on the quadrature branch of GammaQ (counts >= 100, dof > 200; fix 3e583ff): the CDF may decrease by at most 1e-6 of "
                "its value + 1e-10 between neighbouring counts/arguments -- 1e-10 is the ABSOLUTE NOISE FLOOR of Q = 1 - (quadrature of the density) across "
                "the switch k = 99 -> 100 (measured after the repair: a decrease of 2.9e-14 where the true values are below it; before it 2.2e-9 at a value "
                "of 2.4e-9); CDF differences vs the mass function there at 1e-7",
                "Quantile_Gauss for 0 < p < 5.6e-17: the argument 2p-1 rounds to -1 and the result is mu - 10 sqrt2 sigma (fix e9e1286), the exact quantile "
                "(e.g. -8.49 sigma at p = 1e-17) is not representable through that argument; p = 0 gives the same value, p < -5e-17 a diagnostic"]
K_MB = 64          # ulps of the two cancelling terms of CDF_Maxwell_Boltzmann (calibrated: worst observed on the unchanged tree x16)
K_ERF = 4          # ulps of a double erf value near +-1 that the root of erf(x) - y cannot resolve
K_EXP = 64         # relative K*eps*(size of the exponent) for exp-type formulas
FLOOR = 1e-290     # absolute floor (underflow)


def ratio(ctx, clause, err, tol):
    err = float(err); tol = float(tol)
    r = err / tol if tol > 0 else (0.0 if err == 0 else math.inf)
    k = "worst err/tol: " + clause
    if r > ctx["stats"].get(k, 0.0):
        ctx["stats"][k] = r
    return r <= 1.0


def M(x):
    if isinstance(x, Fraction):
        return mpf(x.numerator) / mpf(x.denominator)
    return mpf(x)


# ---- definitions (mpmath) -----------------------------------------------------------------------
SQ2 = None


def d_gauss_pdf(x, mu, s):
    z = (x - mu) / s
    return mpmath.exp(-z * z / 2) / (s * mpmath.sqrt(2 * mpmath.pi)), z * z / 2


def d_gauss_cdf(x, mu, s):
    return (1 + mpmath.erf((x - mu) / (s * mpmath.sqrt(2)))) / 2


def d_pois_pmf(mu, n):
    if mu == 0:
        return (mpf(1) if n == 0 else mpf(0)), 0
    lg = mpmath.loggamma(n + 1)
    return mpmath.exp(n * mpmath.log(mu) - mu - lg), abs(n * mpmath.log(mu)) + mu + 2 * lg + n


def d_pois_cdf(mu, n):
    if n <= 200:
        return mpmath.fsum(d_pois_pmf(mu, k)[0] for k in range(n + 1))
    return mpmath.gammainc(n + 1, mu, mpmath.inf, regularized=True)


def d_chi_pdf(x, k):
    if x <= 0 or k < mpf(1e-6):
        return mpf(0), 0
    h = k / 2
    e = (h - 1) * mpmath.log(x) - x / 2 - h * mpmath.log(2) - mpmath.loggamma(h)
    return mpmath.exp(e), abs((h - 1) * mpmath.log(x)) + x / 2 + h + abs(mpmath.loggamma(h))


def d_chi_cdf(x, k):
    if x < 0:
        return mpf(0)
    if abs(k) < mpf(1e-6):
        return mpf(1)
    return mpmath.gammainc(k / 2, 0, x / 2, regularized=True)


def d_exp_pdf(x, m):
    return (mpmath.exp(-x / m) / m) if x >= 0 else mpf(0)


def d_exp_cdf(x, m):
    return (-mpmath.expm1(-x / m)) if x >= 0 else mpf(0)


def d_mb_pdf(x, a):
    return (mpmath.sqrt(2 / mpmath.pi) * x * x / a ** 3 * mpmath.exp(-x * x / (2 * a * a))) if x >= 0 else mpf(0)


def d_mb_cdf(x, a):
    if x < 0:
        return mpf(0)
    t = x / a
    if t < mpf("0.5"):
        # the closed form cancels (50 digits are not enough below t ~ 1e-16): integrate the series of the density term by term
        tot, k, term = mpf(0), 0, t ** 3 / 3
        while k < 200 and (k == 0 or abs(term) > abs(tot) * mpf(10) ** -55):
            tot += term; k += 1
            term = (-1) ** k * t ** (2 * k + 3) / (mpf(2) ** k * mpmath.factorial(k) * (2 * k + 3))
        return mpmath.sqrt(2 / mpmath.pi) * tot
    return mpmath.erf(t / mpmath.sqrt(2)) - mpmath.sqrt(2 / mpmath.pi) * t * mpmath.exp(-t * t / 2)


def d_loglik(s, n, b):
    return n * mpmath.log(s + b) - mpmath.loggamma(n + 1) - (s + b)


def tol_gamma(a):
    """accuracy the property C06 states for the incomplete gamma function"""
    return 1e-12 if a <= 100 else 1e-3


# ---- generator --------------------------------------------------------------------------------------

def generate(tier, seed, ctx):
    rng = random.Random(seed * 7919 + 7)
    th = tier == "thorough"
    R = []
    ctx["res"] = {}
    ctx["grids"] = []
    n1 = 4 if th else 1

    def grid(kind, pars, xs, cdf_op, fmt):
        xs = sorted(set(xs))
        reqs = [fmt(x) for x in xs]
        R.extend(reqs)
        ctx["grids"].append((kind, pars, xs, reqs))

    # ---- uniform ----
    for _ in range(150 * n1):
        c = rng.random()
        if c < 0.5:
            lo = dyadic(rng, -16, 16, 3); hi = lo + rng.randint(1, 64) / 8.0
        else:
            lo = mixed_magnitude(rng, -6, 6); hi = lo + abs(mixed_magnitude(rng, -6, 6))
            if hi <= lo:
                continue
        for x in (lo, hi, math.nextafter(lo, -math.inf), math.nextafter(hi, math.inf), (lo + hi) / 2, rng.uniform(lo, hi),
                  lo - rng.random() * (hi - lo), hi + rng.random() * (hi - lo)):
            R.append("c07.unif_pdf %s %s %s" % (hx(x), hx(lo), hx(hi)))
            R.append("c07.unif_cdf %s %s %s" % (hx(x), hx(lo), hx(hi)))
    for _ in range(10 * n1):
        lo = dyadic(rng, -16, 16, 3); hi = lo + rng.randint(1, 64) / 8.0
        xs = [lo - 1, lo, hi, hi + 1] + [rng.uniform(lo - 1, hi + 1) for _ in range(8)]
        grid("unif", (lo, hi), xs, None, lambda x: "c07.unif_cdf %s %s %s" % (hx(x), hx(lo), hx(hi)))
    # ---- normal ----
    for _ in range(200 * n1):
        mu = rng.choice([0.0, rng.uniform(-10, 10), mixed_magnitude(rng, -3, 3)])
        s = rng.choice([1.0, 10.0 ** rng.uniform(-3, 3)])
        z = rng.choice([0.0, rng.uniform(-6, 6), rng.uniform(-38, 38), rng.uniform(-9, 9)])
        x = mu + z * s
        R.append("c07.gauss_pdf %s %s %s" % (hx(x), hx(mu), hx(s)))
        R.append("c07.gauss_cdf %s %s %s" % (hx(x), hx(mu), hx(s)))
    for _ in range(10 * n1):
        mu = rng.uniform(-5, 5); s = 10.0 ** rng.uniform(-2, 2)
        xs = [mu + s * rng.uniform(-9, 9) for _ in range(10)] + [mu]
        grid("gauss", (mu, s), xs, None, lambda x: "c07.gauss_cdf %s %s %s" % (hx(x), hx(mu), hx(s)))
    for _ in range(120 * n1):
        c = rng.random()
        p = rng.uniform(0, 1) if c < 0.6 else (10.0 ** rng.uniform(-12, -1) if c < 0.8 else 1 - 10.0 ** rng.uniform(-12, -1))
        p = min(max(p, 1.0000001e-12), 1 - 1.0000001e-12)
        mu = rng.uniform(-10, 10); s = 10.0 ** rng.uniform(-3, 3)
        R.append("c07.gauss_q %s %s %s" % (hx(p), hx(mu), hx(s)))
    # far tails: p in [1e-15, 1e-12] and the upper tail as far as 1-p is representable (p = 1 - k 2^-53, k >= 1;
    # k = 0 is p = 1, the 1e-16 window of Inv_Erf), several (mu, sigma): Inv_Erf must bracket the root (|x| up to 5.9)
    tails = [1e-15, 1.0000001e-15, 2e-15, 5e-15, 1e-14, 1e-13, 5e-13, 7.7e-13, 1e-12] + [10.0 ** rng.uniform(-15, -12) for _ in range(8 * n1)]
    tails += [1 - k * 2.0 ** -53 for k in (1, 2, 3, 4, 7, 16, 100, 1000, 6000, 9007)] + [1 - rng.randint(1, 9007) * 2.0 ** -53 for _ in range(6 * n1)]
    tails += [1 - t for t in (1e-15, 1e-14, 1e-13, 5e-13, 1e-12)]
    for i, p in enumerate(tails):
        for mu, s in ((0.0, 1.0), (2.5, 1.2), (rng.uniform(-10, 10), 10.0 ** rng.uniform(-3, 3))):
            R.append("c07.gauss_q %s %s %s" % (hx(p), hx(mu), hx(s)))
    for p in (0.0, 1.0, -0.5, 1.5, 0.5, -1e-300):
        R.append("c07.gauss_q %s %s %s" % (hx(p), hx(1.0), hx(2.0)))
    # parameters outside their range are rejected with a diagnostic (fix d65f15f): empty uniform domain, sigma <= 0
    # (Quantile_Gauss: sigma < 0), negative degrees of freedom, negative expectations of the likelihoods
    for lo, hi in ((1.0, 1.0), (2.0, 1.0), (0.0, -0.0), (1e300, -1e300), (math.nextafter(1.0, 2), 1.0)):
        for x in (lo, hi, 0.5 * (lo + hi), lo - 1, hi + 1):
            R.append("c07.unif_pdf %s %s %s" % (hx(x), hx(lo), hx(hi))); R.append("c07.unif_cdf %s %s %s" % (hx(x), hx(lo), hx(hi)))
    for sg in (0.0, -0.0, -1.0, -1e-300, -5e-324, -1e300):
        R.append("c07.gauss_pdf %s %s %s" % (hx(0.3), hx(0.0), hx(sg))); R.append("c07.gauss_cdf %s %s %s" % (hx(0.3), hx(0.0), hx(sg)))
        R.append("c07.gauss2d %s %s %s %s %s %s" % (hx(0.1), hx(0.2), hx(0.0), hx(0.0), hx(sg), hx(1.0)))
        R.append("c07.gauss2d %s %s %s %s %s %s" % (hx(0.1), hx(0.2), hx(0.0), hx(0.0), hx(1.0), hx(sg)))
        if sg < 0:
            R.append("c07.gauss_q %s %s %s" % (hx(0.3), hx(1.0), hx(sg)))
    for dof in (-1.0, -0.5, -1e-300, -5e-324, -400.0):
        for x in (-1.0, 0.0, 1.0):
            R.append("c07.chi_pdf %s %s" % (hx(x), hx(dof))); R.append("c07.chi_cdf %s %s" % (hx(x), hx(dof)))
    for sg, bg in ((-1.0, 2.0), (2.0, -1.0), (-1e-300, 0.0), (0.0, -5e-324), (-1.0, -1.0), (-2.0, 3.0)):
        for nn in (0, 3):
            R.append("c07.lik %s %d %s" % (hx(sg), nn, hx(bg))); R.append("c07.loglik %s %d %s" % (hx(sg), nn, hx(bg)))
        for op in ("lik_b", "loglik_b"):
            R.append("c07.%s %s %s %s" % (op, lst([1.0, sg]), ilst([1, 0]), lst([0.5, bg])))
    R.append("c07.lik_b %s %s %s" % (lst([1.0, -2.0]), ilst([1, 0]), lst([])))
    # ---- binomial ----
    for _ in range(250 * n1):
        c = rng.random()
        t = rng.randint(0, 170) if c < 0.8 else rng.randint(171, 400)
        p = rng.choice([0.0, 1.0, 0.5, rng.uniform(0, 1), 10.0 ** rng.uniform(-6, 0), 1 - 10.0 ** rng.uniform(-6, 0)])
        x = rng.choice([0, t, rng.randint(0, t), rng.randint(0, t), min(t + rng.randint(1, 3), 400)])
        R.append("c07.binom_pmf %d %s %d" % (t, hx(p), x))
        R.append("c07.binom_cdf %d %s %d" % (t, hx(p), x))
    for _ in range(6 * n1):
        t = rng.randint(1, 60); p = rng.uniform(0.05, 0.95)
        grid("binom", (t, p), list(range(0, t + 1)), None, lambda x: "c07.binom_cdf %d %s %d" % (t, hx(p), x))
        for x in range(0, t + 1):
            R.append("c07.binom_pmf %d %s %d" % (t, hx(p), x))
    for p in (-0.1, 1.1, -1e-300, math.nextafter(1.0, 2)):
        R.append("c07.binom_pmf 10 %s 3" % hx(p)); R.append("c07.binom_cdf 10 %s 3" % hx(p))
    # ---- Poisson ----
    for _ in range(300 * n1):
        mu = rng.choice([10.0 ** rng.uniform(-3, 3), rng.uniform(0, 50), float(rng.randint(1, 300)), 0.0 if rng.random() < 0.2 else 1.0])
        c = rng.random()
        n = rng.randint(0, 500) if c < 0.3 else max(0, int(mu + rng.uniform(-6, 6) * math.sqrt(mu + 1))) if c < 0.8 else rng.choice([0, 1, 2, 98, 99, 100, 101, 500])
        n = min(n, 500)
        R.append("c07.pois_pmf %s %d" % (hx(mu), n))
        R.append("c07.pois_cdf %s %d" % (hx(mu), n))
    for mu in (-1.0, -1e-300):
        R.append("c07.pois_pmf %s 3" % hx(mu)); R.append("c07.pois_cdf %s 3" % hx(mu))
    # counts >= 100 / dof > 200 go through the quadrature branch of GammaQ (a > 100): dense where a single-interval
    # adaptive Simpson stopped prematurely before `fix:` f69671d ((x-a)/sqrt(a) near -0.48, 6.7, 8.84, 9.06)
    for j in range(600 * n1 if not th else 1500):
        z = rng.choice([-0.48, 6.7, 8.84, 9.06]) + rng.uniform(-0.08, 0.08) if j % 4 else rng.uniform(-9, 10)
        if j % 2:
            n = rng.randint(100, 500); a_ = n + 1.0
            R.append("c07.pois_cdf %s %d" % (hx(max(1e-3, a_ + z * math.sqrt(a_))), n))
        else:
            k = rng.uniform(201, 400) if j % 3 else float(rng.randint(201, 400)); a_ = k / 2
            R.append("c07.chi_cdf %s %s" % (hx(max(0.0, 2 * (a_ + z * math.sqrt(a_)))), hx(k)))
    for _ in range(8 * n1):
        mu = 10.0 ** rng.uniform(-1, 2.5)
        top = int(mu + 10 * math.sqrt(mu) + 10)
        ns = sorted(set([0, 1, 98, 99, 100, 101] + [rng.randint(0, top) for _ in range(8)]))
        ns = [n for n in ns if n <= top]
        grid("pois", (mu,), ns, None, lambda n: "c07.pois_cdf %s %d" % (hx(mu), n))
    for _ in range(24 * n1):      # the switch of algorithms at k = 99 -> 100 (series/continued fraction -> quadrature), means where the CDF is tiny there
        mu = rng.uniform(100, 420)
        ns = [96, 97, 98, 99, 100, 101, 102, 103]
        grid("pois", (mu,), ns, None, lambda n: "c07.pois_cdf %s %d" % (hx(mu), n))
        for n in ns:
            R.append("c07.pois_pmf %s %d" % (hx(mu), n))
        for n in ns:
            R.append("c07.pois_pmf %s %d" % (hx(mu), n))
    for _ in range(6 * n1):   # monotone (decreasing) in the mean at a fixed count
        n = rng.choice([0, 1, 5, 50, 99, 100, 150])
        mus = [max(1e-3, n + 1 + rng.uniform(-5, 5) * math.sqrt(n + 1)) for _ in range(10)]
        grid("pois_mu", (n,), mus, None, lambda mu: "c07.pois_cdf %s %d" % (hx(mu), n))
    for _ in range(120 * n1):
        n = rng.choice([0, 1, 2, rng.randint(0, 99), rng.randint(0, 99), rng.randint(100, 500)])
        c = rng.random()
        cdf = rng.uniform(0, 1) if c < 0.6 else (10.0 ** rng.uniform(-9, -1) if c < 0.8 else 1 - 10.0 ** rng.uniform(-9, -1))
        R.append("c07.pois_inv %d %s" % (n, hx(cdf)))
    for cdf in (-0.1, 1.1):
        R.append("c07.pois_inv 3 %s" % hx(cdf)); R.append("c07.pois_inv 0 %s" % hx(cdf))
    # ---- chi-square / chi-bar-square ----
    for _ in range(300 * n1):
        c = rng.random()
        k = rng.uniform(0.5, 400) if c < 0.35 else float(rng.randint(1, 400)) if c < 0.7 else rng.choice(
            [0.0, 1e-7, 9e-7, 1.1e-6, 1e-6, 0.5, 1.0, 2.0, 199.0, 200.0, 201.0, 200.5, 250.0, 260.0, 320.0, 343.0, 344.0, 400.0])
        x = rng.choice([0.0, -1.0, -1e-300, rng.uniform(0, 3 * k + 10), max(0.0, k + rng.uniform(-5, 5) * math.sqrt(2 * k + 1)), 10.0 ** rng.uniform(-8, 0)])
        R.append("c07.chi_pdf %s %s" % (hx(x), hx(k)))
        R.append("c07.chi_cdf %s %s" % (hx(x), hx(k)))
    for _ in range(10 * n1):
        k = rng.choice([0.5, 1.0, 2.0, 3.0, rng.uniform(0.5, 400), float(rng.randint(1, 400)), float(rng.randint(250, 400))])
        xs = [0.0] + [max(0.0, k + rng.uniform(-4, 6) * math.sqrt(2 * k)) for _ in range(9)] + [k + 1.0]
        grid("chi", (k,), xs, None, lambda x: "c07.chi_cdf %s %s" % (hx(x), hx(k)))
    for _ in range(100 * n1):
        m = rng.randint(0, 8)
        w = [rng.random() for _ in range(m)]
        if m and rng.random() < 0.8:
            sw = sum(w); w = [v / sw for v in w]
        if m and rng.random() < 0.2:
            w[rng.randrange(m)] = 0.0
        x = rng.choice([0.0, -1.0, rng.uniform(0, 20), rng.uniform(0, 3), 10.0 ** rng.uniform(-6, 2)])
        R.append("c07.chibar_pdf %s %s" % (hx(x), lst(w)))
        R.append("c07.chibar_cdf %s %s" % (hx(x), lst(w)))
    for _ in range(6 * n1):   # long, sparse weight vectors: degrees of freedom up to 400
        m = rng.randint(200, 401)
        w = [0.0] * m
        for k in [0, 1, m - 1] + [rng.randrange(m) for _ in range(3)]:
            w[k] = rng.random()
        sw = sum(w); w = [v / sw for v in w]
        x = rng.uniform(0.5, 1.2) * m
        R.append("c07.chibar_pdf %s %s" % (hx(x), lst(w)))
        R.append("c07.chibar_cdf %s %s" % (hx(x), lst(w)))
    for _ in range(6 * n1):
        m = rng.randint(1, 7)
        w = [rng.random() for _ in range(m)]; sw = sum(w); w = [v / sw for v in w]
        xs = [0.0] + [rng.uniform(0, 4 * m + 5) for _ in range(9)]
        grid("chibar", tuple(w), xs, None, lambda x: "c07.chibar_cdf %s %s" % (hx(x), lst(w)))
    # ---- exponential, Maxwell-Boltzmann ----
    for _ in range(150 * n1):
        m = 10.0 ** rng.uniform(-6, 6)
        x = rng.choice([0.0, -1.0, -1e-300, m * rng.uniform(0, 5), m * 10.0 ** rng.uniform(-12, 2.8)])
        for op in ("exp_pdf", "exp_cdf", "mb_pdf", "mb_cdf"):
            R.append("c07.%s %s %s" % (op, hx(x), hx(m)))
    # joint extreme scales: the scale parameter over 1e-150..1e150 with the argument of the SAME order (x = scale * t,
    # t in [0.01,10]) for every scale family (normal sigma (and mu), exponential mean, Maxwell-Boltzmann a, uniform width):
    # density finite, non-negative and equal to the standardized density / scale; CDF difference = integral of the density
    for j in range(60 * n1):
        e = rng.uniform(100, 150) * rng.choice([-1, 1]) if j % 3 else rng.uniform(-150, 150)
        sc = 10.0 ** e
        for _ in range(2):
            t = 10.0 ** rng.uniform(-2, 1)
            for op in ("exp_pdf", "exp_cdf", "mb_pdf", "mb_cdf"):
                R.append("c07.%s %s %s" % (op, hx(sc * t), hx(sc)))
            mu = sc * rng.uniform(-3, 3)
            z = rng.uniform(-8, 8)
            R.append("c07.gauss_pdf %s %s %s" % (hx(mu + z * sc), hx(mu), hx(sc)))
            R.append("c07.gauss_cdf %s %s %s" % (hx(mu + z * sc), hx(mu), hx(sc)))
            lo = sc * rng.uniform(-3, 3); hi = lo + sc * t
            if hi > lo:
                xx = lo + (hi - lo) * rng.uniform(-0.2, 1.2)
                R.append("c07.unif_pdf %s %s %s" % (hx(xx), hx(lo), hx(hi)))
                R.append("c07.unif_cdf %s %s %s" % (hx(xx), hx(lo), hx(hi)))
    for j in range(4 * n1):
        sc = 10.0 ** (rng.uniform(100, 150) * (1 if j % 2 else -1))
        xs = [0.0] + [sc * 10.0 ** rng.uniform(-2, 1) for _ in range(9)]
        grid("exp", (sc,), xs, None, lambda x: "c07.exp_cdf %s %s" % (hx(x), hx(sc)))
        grid("mb", (sc,), xs, None, lambda x: "c07.mb_cdf %s %s" % (hx(x), hx(sc)))
        mu = sc * rng.uniform(-3, 3)
        gx = [mu + sc * rng.uniform(-8, 8) for _ in range(10)]
        grid("gauss", (mu, sc), gx, None, lambda x: "c07.gauss_cdf %s %s %s" % (hx(x), hx(mu), hx(sc)))
    # small arguments, where the closed forms cancel (x/a in [1e-5,1e-1]): pairs 1e-8 apart (relative) straddling candidate
    # switch points x/a = 10^-k, 2^-k and random ones -- the CDF is compared at the rounding noise of its own formula
    # (i.e. relatively to the CDF, not to an absolute floor) and must not decrease across a pair
    ctx["pairs"] = []
    cands = [10.0 ** -k for k in range(1, 6)] + [2.0 ** -k for k in range(4, 17)] + [10.0 ** rng.uniform(-5, -1) for _ in range(6 * n1)]
    for sc in [1.0, 2.5, 10.0 ** rng.uniform(-3, 3)] + [10.0 ** rng.uniform(-6, 6) for _ in range(n1)]:
        for c in cands:
            for op in ("mb_cdf", "exp_cdf"):
                r1 = "c07.%s %s %s" % (op, hx(c * (1 - 5e-9) * sc), hx(sc))
                r2 = "c07.%s %s %s" % (op, hx(c * (1 + 5e-9) * sc), hx(sc))
                R.append(r1); R.append(r2)
                ctx["pairs"].append((op, c, sc, r1, r2))
    if True:                      # x/a down to 1e-160: the series branch (non-negative, monotone, relative accuracy)
        for _ in range(150 * n1):
            sc = 10.0 ** rng.uniform(-3, 3); t = 10.0 ** rng.uniform(-160, -1)
            R.append("c07.mb_cdf %s %s" % (hx(sc * t), hx(sc)))
        for sc in (1.0, 2.5):
            for c in [10.0 ** -k for k in (6, 7, 8, 9, 12, 20, 50, 90)] + [0.1]:
                r1 = "c07.mb_cdf %s %s" % (hx(c * (1 - 5e-9) * sc), hx(sc)); r2 = "c07.mb_cdf %s %s" % (hx(c * (1 + 5e-9) * sc), hx(sc))
                R.append(r1); R.append(r2); ctx["pairs"].append(("mb_cdf", c, sc, r1, r2))
    for m in (0.0, -1.0, -1e-300):
        for op in ("exp_pdf", "exp_cdf", "mb_pdf", "mb_cdf"):
            R.append("c07.%s %s %s" % (op, hx(1.0), hx(m)))
    for _ in range(6 * n1):
        m = 10.0 ** rng.uniform(-2, 2)
        xs = [0.0] + [m * rng.uniform(0, 6) for _ in range(9)]
        grid("exp", (m,), xs, None, lambda x: "c07.exp_cdf %s %s" % (hx(x), hx(m)))
        grid("mb", (m,), xs, None, lambda x: "c07.mb_cdf %s %s" % (hx(x), hx(m)))
    # ---- likelihoods ----
    for _ in range(200 * n1):
        s = rng.choice([0.0, 10.0 ** rng.uniform(-3, 3), rng.uniform(0, 30)])
        b = rng.choice([0.0, 10.0 ** rng.uniform(-3, 3), rng.uniform(0, 30)])
        if s + b <= 0:
            b = 1.0
        n = rng.choice([0, 1, 2, rng.randint(0, 500), max(0, int(s + b + rng.uniform(-3, 3) * math.sqrt(s + b)))])
        n = min(n, 500)
        R.append("c07.lik %s %d %s" % (hx(s), n, hx(b)))
        R.append("c07.loglik %s %d %s" % (hx(s), n, hx(b)))
    for _ in range(80 * n1):
        m = rng.randint(0, 8)
        s = [rng.uniform(0.01, 30) for _ in range(m)]
        n = [max(0, int(v + rng.uniform(-3, 3) * math.sqrt(v))) for v in s]
        c = rng.random()
        b = [] if c < 0.3 else [rng.uniform(0, 10) for _ in range(m)]
        if c > 0.85:   # mismatched bin counts -> diagnostic
            if rng.random() < 0.5:
                n = n + [1]
            else:
                b = b + [1.0] if b else [1.0] * (m + 1)
        for op in ("lik_b", "loglik_b"):
            R.append("c07.%s %s %s %s" % (op, lst(s), ilst(n), lst(b)))
    if True:                       # no expected and no observed events: the mass function is 1
        for op in ("lik", "loglik"):
            R.append("c07.%s %s 0 %s" % (op, hx(0.0), hx(0.0)))
        for j in range(10 * n1):
            m = rng.randint(1, 5)
            sv = [rng.choice([0.0, rng.uniform(0.01, 10)]) for _ in range(m)]; bv = [rng.choice([0.0, rng.uniform(0.01, 5)]) for _ in range(m)]
            nv = [0 if sv[i] + bv[i] == 0 else rng.randint(0, 4) for i in range(m)]
            i0 = rng.randrange(m); sv[i0] = 0.0; bv[i0] = 0.0; nv[i0] = 0
            for op in ("lik_b", "loglik_b"):
                R.append("c07.%s %s %s %s" % (op, lst(sv), ilst(nv), lst(bv)))
    # bins with exact zeros: every combination of zero / non-zero (prediction, observation, background) the code accepts
    # (signal + background > 0), explicit background vectors: the binned likelihood is the product of PMF_Poisson(n_i; s_i+b_i)
    combos = [(zs, zn, zb) for zs in (0, 1) for zn in (0, 1) for zb in (0, 1) if zs or zb]
    for j in range(60 * n1):
        m = rng.randint(1, 6)
        pick = [combos[(j + i) % len(combos)] if i == 0 else rng.choice(combos) for i in range(m)]
        rng.shuffle(pick)
        sv = [rng.choice([rng.uniform(0.01, 30), 10.0 ** rng.uniform(-3, 1)]) if zs else 0.0 for zs, zn, zb in pick]
        bv = [rng.choice([rng.uniform(0.01, 10), 10.0 ** rng.uniform(-3, 1)]) if zb else 0.0 for zs, zn, zb in pick]
        nv = [(max(1, int(sv[i] + bv[i] + rng.uniform(-2, 4))) if zn else 0) for i, (zs, zn, zb) in enumerate(pick)]
        if all(v == 0.0 for v in bv) and rng.random() < 0.5:
            bv = []          # the default background
        for op in ("lik_b", "loglik_b"):
            R.append("c07.%s %s %s %s" % (op, lst(sv), ilst(nv), lst(bv)))
    # ---- KDE ----
    for _ in range(24 * n1):
        N = rng.choice([1, 2, 3, 4, 7, 30, 100, rng.randint(3, 200)])
        xmin = rng.uniform(-5, 5); width = 10.0 ** rng.uniform(-1, 2); xmax = xmin + width
        vals = sorted(set(xmin + width * rng.random() ** rng.choice([1, 2]) for _ in range(N)))
        rng.shuffle(vals)
        w = [1.0] * len(vals) if rng.random() < 0.5 else [rng.uniform(0.1, 3) for _ in vals]
        bw = 0.0 if (rng.random() < 0.5 and len(vals) > 1) else width * 10.0 ** rng.uniform(-3.5, -0.3)
        R.append("c07.kde %d %s %s %s %s" % (len(vals), " ".join(hx(v) + " " + hx(ww) for v, ww in zip(vals, w)), hx(xmin), hx(xmax), hx(bw)))
    for j in range(8 * n1):     # automatic bandwidth for a sample far from the origin compared with its spread (the variance must not cancel)
        off = rng.choice([-1, 1]) * 10.0 ** rng.uniform(3, 10)
        width = 10.0 ** rng.uniform(0.5, 2); xmin = off; xmax = off + width
        N = rng.choice([4, 5, 8, 20, 60])
        vals = sorted(set(xmin + width * rng.uniform(0.1, 0.9) for _ in range(N)))
        w = [1.0] * len(vals) if j % 2 else [rng.uniform(0.5, 2) for _ in vals]
        R.append("c07.kde %d %s %s %s %s" % (len(vals), " ".join(hx(v) + " " + hx(ww) for v, ww in zip(vals, w)), hx(xmin), hx(xmax), hx(0.0)))
    if True:                # samples without spread and the automatic bandwidth: one point, identical points, all the weight on one point
        for j in range(9 * n1):
            xmin = rng.uniform(-5, 5); width = 10.0 ** rng.uniform(-1, 2); xmax = xmin + width
            v0 = xmin + width * rng.uniform(0.05, 0.95)
            kind = j % 3
            pts = [(v0, rng.uniform(0.5, 2))] if kind == 0 else [(v0, rng.uniform(0.5, 2)) for _ in range(rng.randint(2, 9))] if kind == 1 else \
                  [(v0, 1.0), (xmin + width * rng.uniform(0.05, 0.95), 0.0), (xmin + width * rng.uniform(0.05, 0.95), 0.0)]
            R.append("c07.kde %d %s %s %s %s" % (len(pts), " ".join(hx(v) + " " + hx(ww) for v, ww in pts), hx(xmin), hx(xmax), hx(0.0)))
    if True:                # mixture weights outside [0,1] are rejected
        for w in ([1.5, -0.5], [0.5, 0.5, -1e-300], [2.0], [0.2, 1.0000000000000002], [-0.0, 0.5, -5e-324]):
            for x in (1.0, 0.0, -1.0):
                R.append("c07.chibar_pdf %s %s" % (hx(x), lst(w))); R.append("c07.chibar_cdf %s %s" % (hx(x), lst(w)))
    if True:                   # Maxwell-Boltzmann in t = x/a: scales over the whole range of doubles
        for j in range(40 * n1):
            sc = 10.0 ** (rng.uniform(150, 300) * rng.choice([-1, 1])); t = 10.0 ** rng.uniform(-2, 1)
            R.append("c07.mb_pdf %s %s" % (hx(sc * t), hx(sc))); R.append("c07.mb_cdf %s %s" % (hx(sc * t), hx(sc)))
    if True:                # probabilities below 5.6e-17: 2p-1 rounds to -1; the quantile is reported as mu - 10 sqrt2 sigma, not by ending the process
        for p_ in (1e-17, 2e-17, 5e-17, 1e-100, 1e-300, 5e-324):
            for mu, sg in ((0.0, 1.0), (2.5, 1.2)):
                R.append("c07.gauss_q %s %s %s" % (hx(p_), hx(mu), hx(sg)))
    # ---- two-dimensional normal density (coverage extension) ----
    rng2 = random.Random(seed * 15485863 + 707)
    for k in range(120 * n1):
        m1, m2 = rng2.uniform(-5, 5), rng2.uniform(-5, 5)
        s1, s2 = 10.0 ** rng2.uniform(-3, 3), 10.0 ** rng2.uniform(-3, 3)
        c = k % 5
        if c == 0:
            x, y = m1, m2                                   # the mode
        elif c == 1:
            x, y = m1 + s1 * rng2.uniform(-3, 3), m2 + s2 * rng2.uniform(-3, 3)
        elif c == 2:
            x, y = m1 + s1 * rng2.uniform(-30, 30), m2 + s2 * rng2.uniform(-30, 30)      # tails (underflow region included)
        elif c == 3:
            m1, m2, s1, s2 = dyadic(rng2, -4, 4, 2), dyadic(rng2, -4, 4, 2), rng2.choice([0.5, 1.0, 2.0]), rng2.choice([0.25, 1.0, 4.0])
            x, y = m1 + rng2.randint(-8, 8) / 4.0, m2 + rng2.randint(-8, 8) / 4.0
        else:
            x, y = m1 + s1 * rng2.uniform(-3, 3), m2        # on an axis
        R.append("c07.gauss2d %s %s %s %s %s %s" % (hx(x), hx(y), hx(m1), hx(m2), hx(s1), hx(s2)))
    return R


# ---- comparator -----------------------------------------------------------------------------------------

def _key(op, a, model):
    mt = toks(model)
    def mag(v):
        v = abs(v)
        return -99 if v == 0 else int(math.floor(math.log10(v)) // 2)
    try:
        if op in ("c07.binom_pmf", "c07.binom_cdf"):
            t, x = int(a[0]), int(a[2]); return (op, tag(model), t // 20, (x > t) - (x < t), fl(a[1]) in (0.0, 1.0))
        if op in ("c07.pois_pmf", "c07.pois_cdf"):
            return (op, tag(model), mt[0] if mt else "", mag(fl(a[0])), int(a[1]) // 50, int(a[1]) >= 100)
        if op == "c07.gauss2d":
            return (op, tag(model), mag(fl(a[4])), mag(fl(a[5])), fl(a[0]) == fl(a[2]), fl(a[1]) == fl(a[3]))
        if op in ("c07.chibar_pdf", "c07.chibar_cdf", "c07.lik_b", "c07.loglik_b", "c07.kde"):
            return (op, tag(model), mt[0] if mt else "", int(a[0]))
        if op == "c07.pois_inv":
            return (op, tag(model), mt[0] if mt else "", int(a[0]) // 50)
        return (op, tag(model), mt[0] if mt else "", mag(fl(a[0])), mag(fl(a[1])))
    except Exception:
        return (op, tag(model))


def compare(rq, impl, model, ctx):
    op = rq.split(" ", 1)[0]
    a = rq.split()[1:]
    bump(ctx, op)
    fs, both = std_outcome(rq, impl, model)
    if tag(model) in ("ok", "err"):
        ctx["nontrivial"].add(_key(op, a, model))
    ctx["res"][rq] = impl
    if tag(impl) != "ok":
        if op == "c07.gauss_q" and tag(model) == "ok" and tag(impl) == "err":
            p = fl(a[0])
            if 0 < p < 1:
                fs = [fail("prop", "Quantile_Gauss terminated on a valid tail probability", "p=%r mu=%r sigma=%r" % (p, fl(a[1]), fl(a[2])))]
        return fs
    out = list(fs)
    mt = toks(model) if tag(model) == "ok" else None
    try:
        out += _check(op, a, toks(impl), mt, ctx)
    except (ValueError, IndexError, ZeroDivisionError) as e:
        out.append(fail("corr", "comparator could not evaluate the record", repr(e)))
    return out


def oracle_only(rq, impl, ctx):
    op = rq.split(" ", 1)[0]
    ctx["res"][rq] = impl
    if crashed(impl):
        return [fail("prop", "crash/sanitizer/silent exit: " + tag(impl), impl[:200])]
    if tag(impl) != "ok":
        return []
    return [f for f in _check(op, rq.split()[1:], toks(impl), None, ctx) if f["kind"] == "prop"]


def _val(ctx, out, name, v, ref, tol, what="differs from its definition"):
    """class B against the definition; NaN is always a failure"""
    if math.isnan(v) or not ratio(ctx, name + " vs definition", abs(mpf(v) - ref) if not math.isinf(v) else math.inf, tol):
        out.append(fail("prop", "%s %s" % (name, what), "got %r, definition %s" % (v, mpmath.nstr(ref, 17))))
        return False
    return True


def _const(ctx, out, name, v, mt, K=8):
    """the model's answer does not depend on the transcendental parameters: exact rational"""
    m = fr(mt[1])
    if not ratio(ctx, name + " vs exact model value", abs(Fraction(v) - m) if math.isfinite(v) else math.inf, K * EPS * abs(m) + Fraction(FLOOR)):
        out.append(fail("prop", name + " differs from its exact (rational) value", "got %r, exact %s" % (v, float(m))))


def _check(op, a, ti, mt, ctx):
    out = []
    nm = op[4:]
    const = mt is not None and mt[0] == "const"
    if op in ("c07.unif_pdf", "c07.unif_cdf"):
        x, lo, hi = [fl(t) for t in a]; v = fl(ti[0])
        if const:
            _const(ctx, out, "Uniform " + nm[5:], v, mt, 8)
        if v < 0 or (op == "c07.unif_cdf" and v > 1) or math.isnan(v):
            out.append(fail("prop", "uniform: density negative or CDF outside [0,1]", repr(v)))
    elif op in ("c07.gauss_pdf", "c07.gauss_cdf"):
        x, mu, s = [M(Fraction(fl(t))) for t in a]; v = fl(ti[0])
        if op == "c07.gauss_pdf":
            ref, e = d_gauss_pdf(x, mu, s)
            _val(ctx, out, "PDF_Gauss", v, ref, ref * K_EXP * EPSF * (e + 8) + FLOOR)
            if v < 0:
                out.append(fail("prop", "PDF_Gauss negative", repr(v)))
        else:
            ref = d_gauss_cdf(x, mu, s)
            _val(ctx, out, "CDF_Gauss", v, ref, 8 * EPSF)
            if not (0 <= v <= 1):
                out.append(fail("prop", "CDF_Gauss outside [0,1]", repr(v)))
    elif op == "c07.gauss2d":
        x, y, m1, m2, s1, s2 = [M(Fraction(fl(t))) for t in a]
        v, g1, g2 = fl(ti[0]), fl(ti[1]), fl(ti[2])
        zx, zy = (x - m1) / s1, (y - m2) / s2
        e = (zx * zx + zy * zy) / 2
        ref = mpmath.exp(-e) / (2 * mpmath.pi * s1 * s2)
        _val(ctx, out, "PDF_Gauss_2D", v, ref, ref * K_EXP * EPSF * (e + 8) + FLOOR)
        if v < 0:
            out.append(fail("prop", "PDF_Gauss_2D negative", repr(v)))
        # the product of the two one-dimensional densities (both as the implementation computes them)
        prod = mpf(g1) * mpf(g2)
        if not ratio(ctx, "PDF_Gauss_2D vs PDF_Gauss*PDF_Gauss", abs(mpf(v) - prod), prod * 2 * K_EXP * EPSF * (e + 8) + FLOOR):
            out.append(fail("prop", "PDF_Gauss_2D is not the product of the two one-dimensional normal densities",
                            "2-D %r, product %s" % (v, mpmath.nstr(prod, 17))))
    elif op == "c07.gauss_q":
        p, mu, s = [fl(t) for t in a]; q, c = fl(ti[0]), fl(ti[1])
        qd0 = 2.0 * p - 1.0
        # without a model answer (oracle-only search) the branch is derived from the request: |2p-1-1| < 1e-16 is the window at p = 1
        ten = (mt[0] == "ten") if mt is not None else abs(qd0 - 1.0) < 1e-16
        mten = abs(qd0 + 1.0) < 1e-16          # the window at p -> 0 (fix e9e1286), decided on 2p-1 as the code forms it in double
        if mt is not None and (mt[0] == "mten") != mten:
            ctx["excused"] += 1                # 2p-1 rounds across the 1e-16 window (p within an ulp of 5e-17): the double decision counts
        if mten and s > 0:
            w = mu - math.sqrt(2) * s * 10
            if not (abs(q - w) <= 1e-12 * max(abs(w), abs(mu))):
                out.append(fail("prop", "Quantile_Gauss(p -> 0) is not mu - sqrt2*sigma*10", repr(q)))
            return out
        if not ten and (abs(qd0) >= 1.0 or not (s > 0)):
            return out      # no quantile is defined for this request (p outside (0,1) / sigma <= 0): nothing to evaluate
        if ten:
            w = mu + math.sqrt(2) * s * 10
            if abs(q - w) > 1e-12 * abs(w):
                out.append(fail("prop", "Quantile_Gauss(1) is not mu + sqrt2*sigma*10", repr(q)))
        else:
            # x-space: Inv_Erf's 1e-4, plus rounding: the argument 2p-1 as the code forms it in double, and the resolution of
            # a double erf value next to +-1 (2^-53) divided by the slope of erf at the quantile (K_ERF ulps)
            qd = 2.0 * p - 1.0
            xr = mpmath.erfinv(M(Fraction(qd)))
            slope = 2 / mpmath.sqrt(mpmath.pi) * mpmath.exp(-xr * xr)
            ref = M(Fraction(mu)) + mpmath.sqrt(2) * M(Fraction(s)) * xr
            tail = "" if 1e-12 <= p <= 1 - 1e-12 else " (far tail)"
            if math.isnan(q) or not ratio(ctx, "Quantile_Gauss vs erfinv (1e-4 of Inv_Erf)" + tail, abs(mpf(q) - ref),
                                          math.sqrt(2) * s * (1.0001e-4 + K_ERF * EPSF / slope) + 1e-13 * abs(mu)):
                out.append(fail("prop", "Quantile_Gauss misses the quantile by more than the 1e-4 accuracy of Inv_Erf", "p=%r got %r ref %s" % (p, q, mpmath.nstr(ref, 17))))
            if math.isnan(c) or not ratio(ctx, "CDF_Gauss(Quantile_Gauss(p))=p", abs(c - p), 6e-5):
                out.append(fail("prop", "CDF_Gauss(Quantile_Gauss(p)) differs from p by more than 6e-5", "p=%r q=%r cdf=%r" % (p, q, c)))
    elif op in ("c07.binom_pmf", "c07.binom_cdf"):
        t, p, x = int(a[0]), fl(a[1]), int(a[2]); v = fl(ti[0])
        P = Fraction(p)
        ex = sum(Fraction(math.comb(t, i)) * P ** i * (1 - P) ** (t - i) for i in (range(0, min(x, t) + 1) if op == "c07.binom_cdf" else ([x] if x <= t else [])))
        if const and fr(mt[1]) != ex:
            out.append(fail("corr", "model binomial value is not the definition", ""))
        # a factor p^i or (1-p)^(t-i) in the denormal range carries the denormal spacing 2^-1074 as absolute error
        DEN = Fraction(1, 2 ** 1074); NRM = Fraction(1, 2 ** 1021)
        und = Fraction(0)
        for i in (range(0, min(x, t) + 1) if op == "c07.binom_cdf" else ([x] if x <= t else [])):
            f1, f2, cb = P ** i, (1 - P) ** (t - i), Fraction(math.comb(t, i))
            if 0 < f2 < NRM:
                und += cb * f1 * DEN
            if 0 < f1 < NRM or 0 < cb * f1 * f2 < NRM:
                und += cb * max(f2, Fraction(1)) * DEN
        if und:
            bump(ctx, "binomial: a factor underflows to a denormal (absolute slack = denormal spacing)")
        tol = (Fraction(400 + 2 * x) * EPS if t <= 170 else Fraction(1e-10)) * ex + und + Fraction(FLOOR)
        if math.isnan(v) or not ratio(ctx, "Binomial %s vs exact (trials%s170)" % (nm[6:], "<=" if t <= 170 else ">"), abs(Fraction(v) - ex), tol):
            out.append(fail("prop", "%s_Binomial differs from the sum of the mass function" % nm[6:].upper(), "t=%d p=%r x=%d got %r exact %r" % (t, p, x, v, float(ex))))
        if v < 0 or v > 1:                                        # exact (fix 1f73a00)
            out.append(fail("prop", "binomial mass/CDF outside [0,1]", repr(v)))
    elif op in ("c07.pois_pmf", "c07.pois_cdf"):
        mu, n = fl(a[0]), int(a[1]); v = fl(ti[0])
        MU = M(Fraction(mu))
        if op == "c07.pois_pmf":
            ref, e = d_pois_pmf(MU, n)
            if const:
                _const(ctx, out, "PMF_Poisson", v, mt, 0)
            _val(ctx, out, "PMF_Poisson", v, ref, ref * K_EXP * EPSF * (e + 8) + FLOOR)
        else:
            ref = d_pois_cdf(MU, n)
            _val(ctx, out, "CDF_Poisson (counts%s100)" % ("<" if n + 1 <= 100 else ">="), v, ref, tol_gamma(n + 1), "differs from the sum of PMF_Poisson")
        if v < 0 or v > 1:
            out.append(fail("prop", "Poisson mass/CDF outside [0,1]", repr(v)))
    elif op == "c07.pois_inv":
        n, c = int(a[0]), fl(a[1]); mu, back = fl(ti[0]), fl(ti[1])
        if c == 0.0 or c == 1.0:
            return out
        if n == 0:
            ref = -mpmath.log(M(Fraction(c)))
            _val(ctx, out, "Inv_CDF_Poisson(0,cdf)", mu, ref, 4 * EPSF * abs(ref) + 1e-300)
        else:
            tol = 1e-7                                            # every count (audit: worst 2.5e-13)
            if math.isnan(mu) or mu < 0:
                out.append(fail("prop", "Inv_CDF_Poisson returns no non-negative number", "n=%d cdf=%r got %r" % (n, c, mu)))
                return out
            refc = d_pois_cdf(M(Fraction(mu)), n)
            if not ratio(ctx, "CDF_Poisson(Inv_CDF_Poisson)=cdf (counts%s100)" % ("<" if n + 1 <= 100 else ">="), max(abs(back - c), abs(float(refc) - c) * tol / (tol + tol_gamma(n + 1))), tol):
                out.append(fail("prop", "Inv_CDF_Poisson does not invert CDF_Poisson to its stated accuracy", "n=%d cdf=%r mu=%r CDF(mu)=%r" % (n, c, mu, back)))
    elif op in ("c07.chi_pdf", "c07.chi_cdf"):
        x, k = fl(a[0]), fl(a[1]); v = fl(ti[0])
        X, Kk = M(Fraction(x)), M(Fraction(k))
        if op == "c07.chi_pdf":
            ref, e = d_chi_pdf(X, Kk)
            if const:
                _const(ctx, out, "PDF_Chi_Square", v, mt, 0)
            _val(ctx, out, "PDF_Chi_Square", v, ref, ref * K_EXP * EPSF * (e + 8) + FLOOR)
            if v < 0:
                out.append(fail("prop", "PDF_Chi_Square negative", repr(v)))
        else:
            ref = d_chi_cdf(X, Kk)
            if const:
                _const(ctx, out, "CDF_Chi_Square", v, mt, 0)
            _val(ctx, out, "CDF_Chi_Square (dof%s200)" % ("<=" if k <= 200 else ">"), v, ref, tol_gamma(k / 2) * (1 + 1e-3))
            if not (0 <= v <= 1):                                 # exact for every dof (fix 317093f)
                out.append(fail("prop", "CDF_Chi_Square outside [0,1]", repr(v)))
    elif op in ("c07.chibar_pdf", "c07.chibar_cdf"):
        x = fl(a[0]); m = int(a[1]); w = [fl(t) for t in a[2:2 + m]]; v = fl(ti[0])
        X = M(Fraction(x))
        if op == "c07.chibar_pdf":
            ref = mpmath.fsum(M(Fraction(w[k])) * d_chi_pdf(X, mpf(k))[0] for k in range(1, m)) if x > 0 else mpf(0)
            _val(ctx, out, "PDF_Chi_Bar_Square", v, ref, ref * 64 * K_EXP * EPSF + FLOOR, "is not the weighted mixture of PDF_Chi_Square (dof >= 1)")
            if v < 0:
                out.append(fail("prop", "PDF_Chi_Bar_Square negative", repr(v)))
        else:
            ref = mpmath.fsum(M(Fraction(w[k])) * d_chi_cdf(X, mpf(k)) for k in range(0, m)) if x >= 0 else mpf(0)
            ref = min(ref, mpf(1))
            tolw = sum(abs(w[k]) * tol_gamma(k / 2) for k in range(1, m)) + 1e-12 * max(1.0, sum(w))
            _val(ctx, out, "CDF_Chi_Bar_Square", v, ref, tolw, "is not the weighted mixture of CDF_Chi_Square (dof >= 0)")
    elif op in ("c07.exp_pdf", "c07.exp_cdf", "c07.mb_pdf", "c07.mb_cdf"):
        x, m = fl(a[0]), fl(a[1]); v = fl(ti[0])
        X, Mm = M(Fraction(x)), M(Fraction(m))
        ref = {"exp_pdf": d_exp_pdf, "exp_cdf": d_exp_cdf, "mb_pdf": d_mb_pdf, "mb_cdf": d_mb_cdf}[nm](X, Mm)
        name = {"exp_pdf": "PDF_Exponential", "exp_cdf": "CDF_Exponential", "mb_pdf": "PDF_Maxwell_Boltzmann", "mb_cdf": "CDF_Maxwell_Boltzmann"}[nm]
        if const:
            _const(ctx, out, name, v, mt, 0)
        e = (X / Mm if nm.startswith("exp") else X * X / (2 * Mm * Mm)) if x >= 0 else 0
        if nm.endswith("pdf"):
            _val(ctx, out, name, v, ref, ref * K_EXP * EPSF * (e + 8) + FLOOR)
        else:
            _val(ctx, out, name, v, ref, 8 * EPSF)
            t = float(X / Mm) if x >= 0 else 0.0
            if nm == "mb_cdf" and 0 < t < 0.1 and ref > mpf(1e-290):          # the series branch (fix a8d8068)
                if not ratio(ctx, "CDF_Maxwell_Boltzmann small argument, relative", abs(mpf(v) - ref), 16 * EPSF * ref):
                    out.append(fail("prop", "CDF_Maxwell_Boltzmann differs from its definition beyond 16 eps relative (small x/a)",
                                    "x/a=%r got %r, definition %s" % (t, v, mpmath.nstr(ref, 17))))
        if v < 0 or (nm.endswith("cdf") and v > 1) or math.isnan(v):
            out.append(fail("prop", name + " negative or above one", repr(v)))
    elif op in ("c07.lik", "c07.loglik"):
        s, n, b = fl(a[0]), int(a[1]), fl(a[2]); v, pmf = fl(ti[0]), fl(ti[1])
        S, B = M(Fraction(s)), M(Fraction(b))
        if s + b == 0:
            if n != 0:
                return out
            ll = mpf(0); sc = mpf(8)           # PMF_Poisson(0,0) = 1
        else:
            ll = d_loglik(S, n, B)
            sc = abs(n * mpmath.log(S + B)) + 2 * mpmath.loggamma(n + 1) + S + B + n + 8
        if op == "c07.loglik":
            _val(ctx, out, "Log_Likelihood_Poisson", v, ll, K_EXP * EPSF * sc)
            if pmf > 1e-290 and not ratio(ctx, "Log_Likelihood = log PMF_Poisson(s+b)", abs(v - math.log(pmf)), float(2 * K_EXP * EPSF * sc)):
                out.append(fail("prop", "Log_Likelihood_Poisson is not the logarithm of PMF_Poisson at signal plus background", "got %r, log pmf %r" % (v, math.log(pmf))))
        else:
            ref = mpmath.exp(ll)
            _val(ctx, out, "Likelihood_Poisson", v, ref, ref * K_EXP * EPSF * sc + FLOOR)
            if not ratio(ctx, "Likelihood = PMF_Poisson(s+b)", abs(v - pmf), float(2 * K_EXP * EPSF * sc) * pmf + FLOOR):
                out.append(fail("prop", "Likelihood_Poisson is not PMF_Poisson at signal plus background", "got %r, pmf %r" % (v, pmf)))
    elif op in ("c07.lik_b", "c07.loglik_b"):
        m = int(a[0]); s = [fl(t) for t in a[1:1 + m]]
        mn = int(a[1 + m]); nobs = [int(t) for t in a[2 + m:2 + m + mn]]
        mb = int(a[2 + m + mn]); bg = [fl(t) for t in a[3 + m + mn:3 + m + mn + mb]] or [0.0] * m
        v = fl(ti[0]); per = [fl(t) for t in ti[1:1 + m]]
        if mn == m and len(bg) == m and all(si + bi > 0 or ni == 0 for si, ni, bi in zip(s, nobs, bg)):
            # the definition: product over bins of the Poisson mass function at signal plus background (PMF_Poisson(0,0) = 1)
            lls = [d_loglik(M(Fraction(si)), ni, M(Fraction(bi))) if si + bi > 0 else mpf(0) for si, ni, bi in zip(s, nobs, bg)]
            tot = mpmath.fsum(lls)
            scd = sum(abs(ni * mpmath.log(M(Fraction(si)) + M(Fraction(bi)))) + 2 * mpmath.loggamma(ni + 1) + si + bi + ni for si, ni, bi in zip(s, nobs, bg) if si + bi > 0) + 8 * (m + 1)
            if op == "c07.loglik_b":
                _val(ctx, out, "Log_Likelihood_Poisson_Binned", v, tot, K_EXP * EPSF * scd, "is not the sum over bins of log PMF_Poisson(n_i; s_i+b_i)")
            else:
                _val(ctx, out, "Likelihood_Poisson_Binned", v, mpmath.exp(tot), mpmath.exp(tot) * K_EXP * EPSF * scd + FLOOR, "is not the product over bins of PMF_Poisson(n_i; s_i+b_i)")
        if len(per) != m:
            out.append(fail("corr", "binned likelihood: wrong number of per-bin values", ""))
            return out
        if op == "c07.loglik_b":
            tot = math.fsum(per)
            if not ratio(ctx, "binned log-likelihood = sum over bins", abs(v - tot), 4 * (m + 1) * EPSF * (sum(abs(t) for t in per) + 1e-300)):
                out.append(fail("prop", "Log_Likelihood_Poisson_Binned is not the sum over the bins", "got %r, sum %r" % (v, tot)))
        else:
            prod = mpf(1)
            for t in per:
                prod *= mpf(t)
            sc = sum(abs(math.log(t)) for t in per if t > 0) + m + 8
            if not ratio(ctx, "binned likelihood = product over bins", abs(mpf(v) - prod), prod * 4 * K_EXP * EPSF * sc + FLOOR):
                out.append(fail("prop", "Likelihood_Poisson_Binned is not the product over the bins", "got %r, product %s" % (v, mpmath.nstr(prod, 17))))
    elif op == "c07.kde":
        N = int(a[0]); d = [(fl(a[1 + 2 * i]), fl(a[2 + 2 * i])) for i in range(N)]
        xmin, xmax, bw = fl(a[1 + 2 * N]), fl(a[2 + 2 * N]), fl(a[3 + 2 * N])
        integ = fl(ti[0]); vals = [fl(t) for t in ti[1:]]
        if len(vals) != 299:
            out.append(fail("corr", "KDE: wrong number of sampled values", str(len(vals))))
            return out
        d.sort()
        wsum = sum(w for _, w in d)
        if bw == 0:
            avg = sum(w * v for v, w in d) / wsum
            var = sum(w * (v - avg) ** 2 / wsum for v, w in d)
            bw = math.sqrt(var) * (4.0 / 3.0 / N) ** 0.2
        auto = fl(a[3 + 2 * N]) == 0
        spacing = (xmax - xmin) / 149.0
        if auto and not (bw > spacing / 64):
            bw = spacing                      # the fallback of the automatic bandwidth for a sample without (resolvable) spread
        if bw < (xmax - xmin) / 149 / 64:
            # stated exclusion: every tabulated value of such a narrow kernel can underflow to zero (nothing to normalise)
            ctx["excused"] += 1
            bump(ctx, "KDE: bandwidth below 1/64 table spacing (excluded)")
            return out
        if any(math.isnan(v) or v < 0 for v in vals):
            out.append(fail("prop", "KDE takes a negative (or NaN) value inside its window", "min %r" % min(vals)))
        if math.isnan(integ) or not ratio(ctx, "KDE integrates to one (Interpolation::Integrate)", abs(integ - 1), 1e-12):
            out.append(fail("prop", "KDE does not integrate to one over its window", "integral %r" % integ))
        # tabulated values against the definition, up to the common renormalisation factor
        if bw > 0:
            npseudo = N // 3
            pts = [(v, w) for v, w in d] + [(4 * xmin - 6 * d[i][0] + 4 * d[2 * i][0] - d[3 * i][0], (d[i][1] + d[2 * i][1] + d[3 * i][1]) / 3) for i in range(npseudo)]
            dx = (xmax - xmin) / 149
            ratios = []
            for j in range(0, 150, 7):
                x = xmin + j * dx
                ref = sum(w * math.exp(-((x - v) / bw) ** 2 / 2) for v, w in pts) / (math.sqrt(2 * math.pi) * bw * wsum)
                if ref > 1e-200 and vals[2 * j] > 0:
                    ratios.append(vals[2 * j] / ref)
            if ratios and not ratio(ctx, "KDE tabulated values proportional to the definition", max(ratios) / min(ratios) - 1, 1e-9):
                out.append(fail("prop", "KDE tabulated values are not proportional to the weighted kernel sum (with pseudo-data)", "ratio spread %r" % (max(ratios) / min(ratios) - 1)))
    return out


# ---- grids: monotone CDFs, CDF differences = integral / sum of the density ----------------------------------

def finalize(ctx, exe):
    out = []
    # mpmath self-test
    if abs(mpmath.erf(mpmath.erfinv(mpf("0.3"))) - mpf("0.3")) > mpf(10) ** -40 or \
       abs(mpmath.gammainc(3, 0, 2, regularized=True) - (1 - mpmath.exp(-2) * (1 + 2 + 2))) > mpf(10) ** -40 or \
       abs(mpmath.quad(lambda t: d_gauss_pdf(t, mpf(0), mpf(1))[0], [-1, 0, 1]) - mpmath.erf(1 / mpmath.sqrt(2))) > mpf(10) ** -30:
        out.append(fail("corr", "internal: mpmath reference fails its self-test", ""))
    res = ctx["res"]
    for op, c, sc, r1, r2 in ctx.get("pairs", []):
        v1, v2 = res.get(r1), res.get(r2)
        if v1 is None or v2 is None or tag(v1) != "ok" or tag(v2) != "ok":
            continue
        v1, v2 = fl(toks(v1)[0]), fl(toks(v2)[0])
        noise = K_MB * EPSF * 0.8 * c if (op == "mb_cdf" and c >= 0.1) else 0.0    # closed form at and above the switch x/a = 0.1
        if not ratio(ctx, "CDF non-decreasing across a pair 1e-8 apart (%s)" % op, max(0.0, v1 - v2), noise):
            out.append(dict(fail("prop", "CDF decreases between two close arguments (%s)" % op,
                                 "x/scale=%r: %r -> %r (down by %.3g relative)" % (c, v1, v2, (v1 - v2) / max(v1, 1e-300))), req=r2))
    for kind, pars, xs, reqs in ctx["grids"]:
        vals = []
        for r in reqs:
            v = res.get(r)
            if v is None or tag(v) != "ok":
                vals = None
                break
            vals.append(fl(toks(v)[0]))
        if not vals:
            continue
        big = (kind == "chi" and pars[0] > 200) or (kind in ("pois", "pois_mu"))
        sgn = -1 if kind == "pois_mu" else 1
        for i in range(len(vals) - 1):
            slack = 0.0                     # uniform, normal, exponential, binomial: exact (audit: 0 violations in 2-3M neighbour pairs)
            if kind == "mb":
                slack = 4 * EPSF
            elif kind == "chi":
                slack = 2e-13 if pars[0] <= 200 else 1e-8
            elif kind == "pois":
                slack = 0.0 if xs[i + 1] + 1 <= 100 else (1e-6 * max(vals[i], 0.0) + 1e-10)
            elif kind == "pois_mu":
                slack = 2e-13 if pars[0] + 1 <= 100 else (1e-6 * max(vals[i + 1], 0.0) + 1e-10)
            elif kind == "chibar":
                slack = 2e-13
            if not ratio(ctx, "CDF monotone on a sorted grid (%s)" % kind, max(0.0, sgn * (vals[i] - vals[i + 1])), slack):
                out.append(dict(fail("prop", "CDF is not monotone (%s)" % kind, "%r -> %r at %r -> %r" % (vals[i], vals[i + 1], xs[i], xs[i + 1])), req=reqs[i + 1]))
                break
        # CDF differences against the integral / sum of the density's definition
        for i in range(len(vals) - 1):
            a_, b_ = xs[i], xs[i + 1]
            A, B = M(Fraction(a_)), M(Fraction(b_))
            tol = 1e-11
            if kind == "unif":
                lo, hi = Fraction(pars[0]), Fraction(pars[1])
                ref = M(max(Fraction(0), min(Fraction(b_), hi) - max(Fraction(a_), lo)) / (hi - lo))
            elif kind == "gauss":
                mu, s = M(Fraction(pars[0])), M(Fraction(pars[1]))
                ref = mpmath.quad(lambda t: d_gauss_pdf(t, mu, s)[0], [A, B])
            elif kind == "chi":
                k = M(Fraction(pars[0]))
                if pars[0] < 2 and a_ == 0:
                    continue          # integrable singularity of the density at 0
                ref = mpmath.quad(lambda t: d_chi_pdf(t, k)[0], [A, B]); tol = 1e-11 if pars[0] <= 200 else 1e-7
            elif kind == "chibar":
                w = pars
                if a_ == 0:
                    continue
                ref = mpmath.quad(lambda t: mpmath.fsum(M(Fraction(w[k])) * d_chi_pdf(t, mpf(k))[0] for k in range(1, len(w))), [A, B])
            elif kind == "exp":
                m = M(Fraction(pars[0])); ref = mpmath.quad(lambda t: d_exp_pdf(t, m), [A, B])
            elif kind == "mb":
                m = M(Fraction(pars[0])); ref = mpmath.quad(lambda t: d_mb_pdf(t, m), [A, B])
            elif kind == "binom":
                t, p = pars
                pm = res.get("c07.binom_pmf %d %s %d" % (t, hx(p), b_))
                if pm is None or tag(pm) != "ok":
                    continue
                ref = mpf(fl(toks(pm)[0])) if b_ == a_ + 1 else None
                if ref is None:
                    continue
                tol = 1e-13
            elif kind == "pois":
                mu = pars[0]
                if b_ != a_ + 1:
                    ref = mpmath.fsum(d_pois_pmf(M(Fraction(mu)), k)[0] for k in range(a_ + 1, b_ + 1))
                else:
                    pm = res.get("c07.pois_pmf %s %d" % (hx(mu), b_))
                    ref = mpf(fl(toks(pm)[0])) if pm and tag(pm) == "ok" else None
                    if ref is None:
                        continue
                tol = 2e-12 if b_ + 1 <= 100 else 1e-7
            else:
                continue
            if not ratio(ctx, "CDF difference = integral/sum of the density (%s)" % kind, abs(mpf(vals[i + 1]) - mpf(vals[i]) - ref), tol):
                out.append(dict(fail("prop", "CDF difference over an interval is not the integral (sum) of the density (%s)" % kind,
                                     "[%r,%r]: CDF difference %r, density integral %s" % (a_, b_, vals[i + 1] - vals[i], mpmath.nstr(ref, 15))), req=reqs[i + 1]))
                break
    return out
