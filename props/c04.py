"""C04 — vector and matrix algebra obeys the algebraic laws for every conformable shape.

Correspondence: class B (values, tolerance K*eps*sum|terms|; exact on the dyadic family), class A
(outcome ok / diagnostic exit on conformable / non-conformable shapes, forked child under
ASan+UBSan), class D (every spelling of one operation bit-identical).  The property oracle is an
independent exact reference in Python (`pyref`): the definitions of the property evaluated with
`fractions.Fraction` on the request, compared with the implementation's own output.
"""
import itertools, math, random
from fractions import Fraction
from common import *

RULE = ("shape triples (m,n,k) are enumerated exhaustively (quick: 1..4, thorough: 1..5) and drawn at random up to 8; "
        "for every shape each public member / free operator / spelling is requested on a dyadic (exactly representable "
        "arithmetic) and a mixed-magnitude entry family; non-conformable pairs (transposed, off by one in rows, in "
        "columns) and out-of-range indices are requested for every guarded entry point. A case is non-trivial when the "
        "model answers ok or err; it is counted once per distinct (operation, spelling, operand shapes, outcome).")
CORR_ONLY = ["Vector::Norm / Matrix::Norm: the model gives the exact sum of squares; the square root is compared "
             "through its square (DESIGN.md C04 [T2])"]
ASSUMPTIONS = ["IEEE-754 double arithmetic with round-to-nearest: |fl(x op y) - (x op y)| <= 2^-53 |x op y| "
               "(tolerances are the standard forward bounds (n+2)*2^-53*sum|terms| of a length-n accumulation)",
               "requests keep |entries| within 1e-21..1e21 so that no product overflows or becomes subnormal"]
TRUSTED = ["props/c04.py `pyref`: the property's definitions written a second time in Python (exact Fractions)"]

Z = Fraction(0)


# --------------------------------------------------------------------------------------------------
# request construction
# --------------------------------------------------------------------------------------------------

def mat_tok(M):
    r = len(M)
    c = M.ncols if hasattr(M, "ncols") else (len(M[0]) if r else 0)
    es = [hx(x) for row in M for x in row]
    return " ".join([str(r), str(c)] + es)


class Rows(list):
    """list of rows that remembers its column count (for 0-row matrices)"""
    def __init__(self, rows, ncols):
        super().__init__(rows)
        self.ncols = ncols


def entry(rng, fam):
    if fam == "dy":
        c = rng.random()
        if c < 0.12:
            return 0.0
        return dyadic(rng, -16, 16, 4)
    c = rng.random()
    if c < 0.1:
        return 0.0
    if c < 0.2:
        return float(rng.randint(-3, 3))
    return mixed_magnitude(rng, -20, 20)


def rmat(rng, r, c, fam):
    return Rows([[entry(rng, fam) for _ in range(c)] for _ in range(r)], c)


def rvec(rng, n, fam):
    return [entry(rng, fam) for _ in range(n)]


def scalar(rng, fam, nonzero=False):
    while True:
        s = rng.choice([0.5, 2.0, -4.0, 0.25, 1.0, -1.0, 3.0, 0.0]) if fam == "dy" else entry(rng, fam)
        if not (nonzero and s == 0.0):
            return s


def special_square(rng, n, fam, kind):
    M = rmat(rng, n, n, fam)
    for i in range(n):
        for j in range(i + 1, n):
            if kind in ("sym", "symx"):
                M[j][i] = M[i][j]
            elif kind in ("asym", "asymx"):
                M[j][i] = -M[i][j]
            elif kind in ("diag", "diagx"):
                M[j][i] = 0.0; M[i][j] = 0.0
    if kind in ("asym", "asymx"):
        for i in range(n):
            M[i][i] = 0.0
    if kind.endswith("x") and n >= 2:   # near miss: one entry of the lower triangle / diagonal disturbed
        i = rng.randrange(1, n); j = rng.randrange(0, i)
        M[i][j] = M[i][j] + 1.0 if M[i][j] == 0 or fam == "dy" else M[i][j] * (1 + 2.0 ** -52)
        if kind == "asymx" and rng.random() < 0.3:
            M[i][j] = -M[j][i]
            M[0][0] = 1.0
    return M


def unary_block(R, rng, m, n, fam):
    A = rmat(rng, m, n, fam); B = rmat(rng, m, n, fam)
    a, b = mat_tok(A), mat_tok(B)
    for sp in "moa":
        R.append("c04.plus %s %s %s" % (sp, a, b))
        R.append("c04.minus %s %s %s" % (sp, a, b))
    s = scalar(rng, fam)
    for sp in "mof":
        R.append("c04.smul %s %s %s" % (sp, a, hx(s)))
    s = scalar(rng, fam, nonzero=True)
    for sp in "mo":
        R.append("c04.sdiv %s %s %s" % (sp, a, hx(s)))
    v = rvec(rng, n, fam); w = rvec(rng, m, fam)
    for sp in "mo":
        R.append("c04.matvec %s %s %s" % (sp, a, lst(v)))
    R.append("c04.vecmat %s %s" % (lst(w), a))
    R.append("c04.transpose " + a)
    R.append("c04.preds " + a)
    R.append("c04.trace " + a)
    R.append("c04.mnorm " + a)
    R.append("c04.meq %s %s" % (a, a if rng.random() < 0.5 else b))
    R.append("c04.subm %s %d %d" % (a, rng.randrange(m), rng.randrange(n)))
    R.append("c04.delrow %s %d" % (a, rng.randrange(m)))
    R.append("c04.delcol %s %d" % (a, rng.randrange(n)))
    R.append("c04.retrow %s %d" % (a, rng.randrange(m)))
    R.append("c04.retcol %s %d" % (a, rng.randrange(n)))
    R.append("c04.mget %s %d %d" % (a, rng.randrange(m), rng.randrange(n)))
    R.append("c04.outer %s %s" % (lst(w), lst(v)))
    R.append("c04.ctor %d %s" % (m, " ".join(lst(r) for r in A)))
    R.append("c04.const %d %d %s" % (m, n, hx(entry(rng, fam))))


def vector_block(R, rng, n, fam):
    u, v = rvec(rng, n, fam), rvec(rng, n, fam)
    for sp in "mo":
        R.append("c04.dot %s %s %s" % (sp, lst(u), lst(v)))
    for sp in "oa":
        R.append("c04.vadd %s %s %s" % (sp, lst(u), lst(v)))
        R.append("c04.vsub %s %s %s" % (sp, lst(u), lst(v)))
    s = scalar(rng, fam)
    for sp in "of":
        R.append("c04.vsmul %s %s %s" % (sp, lst(u), hx(s)))
    R.append("c04.vsdiv %s %s" % (lst(u), hx(scalar(rng, fam, nonzero=True))))
    R.append("c04.veq %s %s" % (lst(u), lst(u if rng.random() < 0.5 else v)))
    R.append("c04.vnorm " + lst(u))
    R.append("c04.vget %s %d" % (lst(u), rng.randrange(n)))
    R.append("c04.diag " + lst(u))
    if n == 3:
        R.append("c04.cross %s %s" % (lst(u), lst(v)))
    for kind in ("sym", "symx", "asym", "asymx", "diag", "diagx"):
        R.append("c04.preds " + mat_tok(special_square(rng, n, fam, kind)))


def triple_block(R, rng, m, n, k, fam):
    A = rmat(rng, m, n, fam); B = rmat(rng, n, k, fam)
    for sp in "mo":
        R.append("c04.mul %s %s %s" % (sp, mat_tok(A), mat_tok(B)))
    R.append("c04.laws %s %s" % (mat_tok(A), mat_tok(B)))
    # 2x2 block grid: row heights (m, k), column widths (n, m)
    g = [[rmat(rng, m, n, fam), rmat(rng, m, m, fam)], [rmat(rng, k, n, fam), rmat(rng, k, m, fam)]]
    R.append("c04.block 2 2 " + " ".join(mat_tok(x) for row in g for x in row))


def grid_block(R, rng, fam, valid):
    nr, nc = rng.randint(1, 3), rng.randint(1, 3)
    hs = [rng.randint(1, 3) for _ in range(nr)]
    ws = [rng.randint(1, 3) for _ in range(nc)]
    dims = [[[hs[i], ws[j]] for j in range(nc)] for i in range(nr)]
    if not valid:
        i, j = rng.randrange(nr), rng.randrange(nc)
        if nr * nc == 1:
            return
        which = rng.randrange(2)
        if (which == 0 and nc == 1) or (which == 1 and nr == 1):
            which = 1 - which
        dims[i][j][which] += rng.choice([1, -1]) if dims[i][j][which] > 1 else 1
    R.append("c04.block %d %d %s" % (nr, nc, " ".join(mat_tok(rmat(rng, d[0], d[1], fam)) for row in dims for d in row)))


def guard_block(R, rng, m, n, fam):
    """class A: conformable and non-conformable partners of an m x n matrix"""
    A = rmat(rng, m, n, fam); a = mat_tok(A)
    partners = {(m, n), (n, m), (m + 1, n), (m, n + 1), (m - 1, n), (m, n - 1), (n, n), (m, m)}
    for (p, q) in sorted(partners):
        if p < 1 or q < 1:
            continue
        b = mat_tok(rmat(rng, p, q, fam))
        for sp in "moa":
            R.append("c04.plus %s %s %s" % (sp, a, b))
            R.append("c04.minus %s %s %s" % (sp, a, b))
        for sp in "mo":
            R.append("c04.mul %s %s %s" % (sp, a, b))
        R.append("c04.meq %s %s" % (a, b))
    for l in sorted({n, m, n + 1, n - 1, m + 1, 0} - {-1}):
        for sp in "mo":
            R.append("c04.matvec %s %s %s" % (sp, a, lst(rvec(rng, l, fam))))
    for l in sorted({m, n, m + 1, m - 1, 0} - {-1}):
        R.append("c04.vecmat %s %s" % (lst(rvec(rng, l, fam)), a))
    R.append("c04.trace " + a)
    for (r, c) in [(-1, 0), (0, -1), (m, 0), (0, n), (m + 1, n + 1), (m - 1, n - 1), (-2147483648, 0)]:
        R.append("c04.subm %s %d %d" % (a, r, c))
    for r in (m - 1, m, m + 1, 4294967295):
        R.append("c04.delrow %s %d" % (a, r)); R.append("c04.retrow %s %d" % (a, r))
    for c in (n - 1, n, n + 1, 4294967295):
        R.append("c04.delcol %s %d" % (a, c)); R.append("c04.retcol %s %d" % (a, c))
    R.append("c04.mget %s %d %d" % (a, m, 0))
    # ragged entries
    if m >= 2:
        rows = [list(r) for r in A]
        i = rng.randrange(1, m)
        rows[i] = rows[i] + [1.0] if rng.random() < 0.5 or n == 1 else rows[i][:-1]
        R.append("c04.ctor %d %s" % (m, " ".join(lst(r) for r in rows)))


def vguard_block(R, rng, p, q, fam):
    u, v = rvec(rng, p, fam), rvec(rng, q, fam)
    for sp in "mo":
        R.append("c04.dot %s %s %s" % (sp, lst(u), lst(v)))
    for sp in "oa":
        R.append("c04.vadd %s %s %s" % (sp, lst(u), lst(v)))
        R.append("c04.vsub %s %s %s" % (sp, lst(u), lst(v)))
    R.append("c04.cross %s %s" % (lst(u), lst(v)))
    R.append("c04.veq %s %s" % (lst(u), lst(v)))
    R.append("c04.outer %s %s" % (lst(u), lst(v)))
    R.append("c04.vget %s %d" % (lst(u), p))
    R.append("c04.vget %s %d" % (lst(u), p + 1))


def generate(tier, seed, ctx):
    rng = random.Random(seed * 104729 + 4)
    thorough = tier == "thorough"
    L = 5 if thorough else 4
    R = []
    fams = ("dy", "mx")
    cnt = 0
    for m in range(1, L + 1):
        for n in range(1, L + 1):
            for fam in fams:
                unary_block(R, rng, m, n, fam)
            guard_block(R, rng, m, n, fams[cnt % 2]); cnt += 1
            for k in range(1, L + 1):
                if thorough:
                    for fam in fams:
                        triple_block(R, rng, m, n, k, fam)
                else:
                    triple_block(R, rng, m, n, k, fams[cnt % 2]); cnt += 1
    for n in range(1, 9):
        for fam in fams:
            vector_block(R, rng, n, fam)
    for p in range(0, 6):
        for q in range(0, 6):
            vguard_block(R, rng, p, q, fams[(p + q) % 2])
    # random shapes up to 8
    for _ in range(400 if thorough else 60):
        m, n, k = rng.randint(1, 8), rng.randint(1, 8), rng.randint(1, 8)
        fam = rng.choice(fams)
        triple_block(R, rng, m, n, k, fam)
        unary_block(R, rng, m, n, fam)
        if rng.random() < 0.3:
            guard_block(R, rng, m, n, fam)
    for _ in range(200 if thorough else 40):
        grid_block(R, rng, rng.choice(fams), valid=rng.random() < 0.7)
    # degenerate shapes (a dimension equal to zero)
    for (m, n) in [(0, 0), (0, 2), (2, 0), (0, 1), (1, 0)]:
        A = Rows([[] for _ in range(m)], n); a = mat_tok(A)
        R.append("c04.plus m %s %s" % (a, a)); R.append("c04.minus a %s %s" % (a, a))
        R.append("c04.transpose " + a); R.append("c04.preds " + a); R.append("c04.trace " + a)
        R.append("c04.mul m %s %s" % (a, mat_tok(Rows([[1.0] * m for _ in range(n)], m))))
        R.append("c04.matvec m %s %s" % (a, lst([1.0] * n)))
        R.append("c04.vecmat %s %s" % (lst([1.0] * m), a))
        R.append("c04.outer %s %s" % (lst([1.0] * m), lst([2.0] * n)))
        R.append("c04.mnorm " + a)
    R.append("c04.identity 0"); R.append("c04.diag 0"); R.append("c04.ctor 0"); R.append("c04.vnorm 0")
    for n in range(1, 9):
        R.append("c04.identity %d" % n)
    ctx["spell"] = {}
    return R


# --------------------------------------------------------------------------------------------------
# independent exact reference (the property's definitions)
# --------------------------------------------------------------------------------------------------

class Cur:
    def __init__(self, toks):
        self.t, self.p = toks, 0

    def tok(self):
        self.p += 1
        return self.t[self.p - 1]

    def int(self):
        return int(self.tok())

    def num(self):
        return Fraction(fl(self.tok()))

    def vec(self):
        n = self.int()
        return [self.num() for _ in range(n)]

    def mat(self):
        r, c = self.int(), self.int()
        return (r, c, [[self.num() for _ in range(c)] for _ in range(r)])


ERR = ("err",)
UNDEF = ("undef",)


def V(items, K):
    """items: list of (value, scale); K: multiple of eps*scale allowed"""
    return ("ok", items, K)


def rM(r, c, f, K, via_entries=False):
    """matrix result: header ints then entries f(i,j) -> (value, scale).  via_entries: the C++ builds the
    result through Matrix(vector<vector<double>>), which reports 0 columns when there is no row (shapes
    with a zero dimension are outside the property's quantifier; the reference follows the code there)"""
    if via_entries and r == 0:
        c = 0
    return ("ok", [("int", r), ("int", c)] + [f(i, j) for i in range(r) for j in range(c)], K)


def rV(n, f, K):
    return ("ok", [("int", n)] + [f(i) for i in range(n)], K)


def acc(terms):
    terms = list(terms)
    return (sum(terms, Z), sum((abs(t) for t in terms), Z))


def u32(i):
    return i % 2 ** 32


def pyref(op, a):
    c = Cur(a)
    if op in ("c04.plus", "c04.minus"):
        sp = c.tok(); (r, k, A), (r2, k2, B) = c.mat(), c.mat()
        if (r, k) != (r2, k2):
            return ERR
        sg = 1 if op == "c04.plus" else -1
        return rM(r, k, lambda i, j: (A[i][j] + sg * B[i][j], abs(A[i][j]) + abs(B[i][j])), 1, sp != "a")
    if op == "c04.mul":
        c.tok(); (r, k, A), (r2, k2, B) = c.mat(), c.mat()
        if k != r2:
            return ERR
        return rM(r, k2, lambda i, j: acc(A[i][t] * B[t][j] for t in range(k)), k + 2)
    if op == "c04.smul":
        c.tok(); (r, k, A) = c.mat(); s = c.num()
        return rM(r, k, lambda i, j: (s * A[i][j], abs(s * A[i][j])), 1, True)
    if op == "c04.sdiv":
        c.tok(); (r, k, A) = c.mat(); s = c.num()
        if s == 0:
            return UNDEF
        return rM(r, k, lambda i, j: (A[i][j] / s, abs(A[i][j] / s)), 1, True)
    if op == "c04.matvec":
        c.tok(); (r, k, A) = c.mat(); v = c.vec()
        if len(v) != k:
            return ERR
        return rV(r, lambda i: acc(A[i][j] * v[j] for j in range(k)), k + 2)
    if op == "c04.vecmat":
        v = c.vec(); (r, k, A) = c.mat()
        if len(v) != r:
            return ERR
        return rV(k, lambda i: acc(v[j] * A[j][i] for j in range(r)), r + 2)
    if op == "c04.transpose":
        (r, k, A) = c.mat()
        return rM(k, r, lambda i, j: (A[j][i], 0), 0, True)
    if op == "c04.trace":
        (r, k, A) = c.mat()
        if r != k:
            return ERR
        return V([acc(A[i][i] for i in range(r))], r + 2)
    if op == "c04.subm":
        (r, k, A) = c.mat(); i0, j0 = u32(c.int()), u32(c.int())
        if i0 >= r or j0 >= k:
            return ERR
        rows = [[x for j, x in enumerate(row) if j != j0] for i, row in enumerate(A) if i != i0]
        return rM(r - 1, k - 1, lambda i, j: (rows[i][j], 0), 0)
    if op in ("c04.delrow", "c04.retrow"):
        (r, k, A) = c.mat(); i0 = c.int()
        if i0 >= r:
            return ERR
        if op == "c04.retrow":
            return rV(k, lambda j: (A[i0][j], 0), 0)
        rows = [row for i, row in enumerate(A) if i != i0]
        return rM(r - 1, k, lambda i, j: (rows[i][j], 0), 0)
    if op in ("c04.delcol", "c04.retcol"):
        (r, k, A) = c.mat(); j0 = c.int()
        if j0 >= k:
            return ERR
        if op == "c04.retcol":
            return rV(r, lambda i: (A[i][j0], 0), 0)
        rows = [[x for j, x in enumerate(row) if j != j0] for row in A]
        return rM(r, k - 1, lambda i, j: (rows[i][j], 0), 0)
    if op == "c04.preds":
        (r, k, A) = c.mat()
        sq = r == k
        sym = sq and all(A[i][j] == A[j][i] for i in range(r) for j in range(r))
        asym = sq and all(A[i][j] == -A[j][i] for i in range(r) for j in range(r))
        dg = sq and all(A[i][j] == 0 for i in range(r) for j in range(r) if i != j)
        return V([("int", int(x)) for x in (sq, sym, asym, dg)], 0)
    if op == "c04.identity":
        n = c.int()
        return rM(n, n, lambda i, j: (Fraction(int(i == j)), 0), 0)
    if op == "c04.diag":
        d = c.vec()
        return rM(len(d), len(d), lambda i, j: (d[i] if i == j else Z, 0), 0)
    if op == "c04.const":
        r, k = c.int(), c.int(); e = c.num()
        return rM(r, k, lambda i, j: (e, 0), 0)
    if op == "c04.ctor":
        n = c.int(); rows = [c.vec() for _ in range(n)]
        k = len(rows[0]) if rows else 0
        if any(len(x) != k for x in rows):
            return ERR
        return rM(n, k, lambda i, j: (rows[i][j], 0), 0)
    if op == "c04.block":
        nr, nc = c.int(), c.int()
        g = [[c.mat() for _ in range(nc)] for _ in range(nr)]
        if nr == 0 or nc == 0:
            return UNDEF
        for i in range(nr):
            for j in range(nc):
                if g[i][j][0] != g[i][0][0] or g[i][j][1] != g[0][j][1]:
                    return ERR
        rows = []
        for i in range(nr):
            for ii in range(g[i][0][0]):
                rows.append([x for j in range(nc) for x in g[i][j][2][ii]])
        r = sum(g[i][0][0] for i in range(nr)); k = sum(g[0][j][1] for j in range(nc))
        return rM(r, k, lambda i, j: (rows[i][j], 0), 0)
    if op == "c04.outer":
        u, v = c.vec(), c.vec()
        return rM(len(u), len(v), lambda i, j: (u[i] * v[j], abs(u[i] * v[j])), 1)
    if op == "c04.dot":
        c.tok(); u, v = c.vec(), c.vec()
        if len(u) != len(v):
            return ERR
        return V([acc(x * y for x, y in zip(u, v))], len(u) + 2)
    if op == "c04.cross":
        u, v = c.vec(), c.vec()
        if len(u) != 3 or len(v) != 3:
            return ERR
        return rV(3, lambda i: acc([u[(i + 1) % 3] * v[(i + 2) % 3], -u[(i + 2) % 3] * v[(i + 1) % 3]]), 3)
    if op in ("c04.vadd", "c04.vsub"):
        c.tok(); u, v = c.vec(), c.vec()
        if len(u) != len(v):
            return ERR
        sg = 1 if op == "c04.vadd" else -1
        return rV(len(u), lambda i: (u[i] + sg * v[i], abs(u[i]) + abs(v[i])), 1)
    if op == "c04.vsmul":
        c.tok(); u = c.vec(); s = c.num()
        return rV(len(u), lambda i: (u[i] * s, abs(u[i] * s)), 1)
    if op == "c04.vsdiv":
        u = c.vec(); s = c.num()
        if s == 0:
            return UNDEF
        return rV(len(u), lambda i: (u[i] / s, abs(u[i] / s)), 1)
    if op == "c04.veq":
        u, v = c.vec(), c.vec()
        return V([("int", int(u == v))], 0)
    if op == "c04.meq":
        A, B = c.mat(), c.mat()
        return V([("int", int(A == B))], 0)
    if op == "c04.vnorm":
        u = c.vec()
        return ("sq", sum((x * x for x in u), Z), len(u))
    if op == "c04.mnorm":
        (r, k, A) = c.mat()
        return ("sq", sum((x * x for row in A for x in row), Z), r * k)
    if op == "c04.vget":
        u = c.vec(); i = c.int()
        return ERR if i >= len(u) else V([(u[i], 0)], 0)
    if op == "c04.mget":
        (r, k, A) = c.mat(); i, j = c.int(), c.int()
        if i >= r:
            return ERR
        return UNDEF if j >= k else V([(A[i][j], 0)], 0)
    if op == "c04.laws":
        (r, k, A), (r2, k2, B) = c.mat(), c.mat()
        if k != r2:
            return ERR
        return V([("int", 1)] * 4, 0)
    return None


LAW_NAMES = ["transpose(A*B) == transpose(B)*transpose(A)", "A*I == A", "I*A == A", "transpose(transpose(A)) == A"]

INT_HEADER = {"c04.plus": 2, "c04.minus": 2, "c04.mul": 2, "c04.smul": 2, "c04.sdiv": 2, "c04.transpose": 2,
              "c04.subm": 2, "c04.delrow": 2, "c04.delcol": 2, "c04.identity": 2, "c04.diag": 2, "c04.const": 2,
              "c04.ctor": 2, "c04.block": 2, "c04.outer": 2, "c04.matvec": 1, "c04.vecmat": 1, "c04.retrow": 1,
              "c04.retcol": 1, "c04.cross": 1, "c04.vadd": 1, "c04.vsub": 1, "c04.vsmul": 1, "c04.vsdiv": 1}
SPELLED = {"c04.plus", "c04.minus", "c04.mul", "c04.smul", "c04.sdiv", "c04.matvec", "c04.dot", "c04.vadd",
           "c04.vsub", "c04.vsmul"}
SP_NAME = {("c04.plus", "m"): "Plus", ("c04.plus", "o"): "operator+", ("c04.plus", "a"): "operator+=",
           ("c04.minus", "m"): "Minus", ("c04.minus", "o"): "operator-", ("c04.minus", "a"): "operator-=",
           ("c04.mul", "m"): "Product(Matrix)", ("c04.mul", "o"): "operator*(Matrix)"}


def inputs_exact(a):
    """all numeric inputs are dyadics k/16 with |x| <= 64: +,-,* on them (sums of <= 64 terms) are exact"""
    for t in a:
        if "x" in t or "X" in t:
            v = Fraction(float.fromhex(t))
            if abs(v) > 64 or (v * 16).denominator != 1:
                return False
    return True


def check_values(op, ref, ti, exact):
    """implementation tokens against the reference; returns None or a description"""
    _, items, K = ref
    if len(ti) != len(items):
        return "shape of the result: %d values instead of %d" % (len(ti), len(items))
    if exact and op not in ("c04.sdiv", "c04.vsdiv"):
        K = 0
    for idx, (it, t) in enumerate(zip(items, ti)):
        if it[0] == "int":
            if "x" in t or t in ("nan", "inf", "-inf") or int(t) != it[1]:
                return "integer %d of the result is %s, expected %d" % (idx, t, it[1])
        else:
            v = fl(t)
            if not close(v, it[0], it[1], 2 * K):
                return "value %d is %r, definition gives %r" % (idx, v, float(it[0]))
    return None


def check_sq(ref, ti, mult=1):
    _, s, n = ref
    if len(ti) != 1:
        return "one value expected"
    v = fl(ti[0])
    if math.isnan(v) or math.isinf(v) or v < 0:
        return "norm is %r" % v
    if not close(Fraction(v) ** 2, s, s, mult * (2 * n + 16)):
        return "norm^2 is %r, sum of squares is %r" % (v * v, float(s))
    return None


def model_items(op, tm):
    """model answer tokens -> same item layout as pyref (ints for the header, Fractions after)"""
    h = INT_HEADER.get(op, 0)
    if op in ("c04.preds", "c04.veq", "c04.meq", "c04.laws"):
        return [("int", int(t)) for t in tm]
    return [("int", int(t)) for t in tm[:h]] + [(fr(t), None) for t in tm[h:]]


def clause_of(op, a):
    sp = SP_NAME.get((op, a[0]), "") if op in SPELLED else ""
    return op[4:] + (" [" + sp + "]" if sp else (" [spelling " + a[0] + "]" if op in SPELLED else ""))


def compare(rq, impl, model, ctx):
    op = rq.split(" ", 1)[0]
    a = rq.split()[1:]
    bump(ctx, op)
    ref = pyref(op, a)
    if ref is None:
        return [fail("corr", "request not understood by the reference", op)]
    fs, both = std_outcome(rq, impl, model, clause_of(op, a) + ": ")
    out = []
    ti = toks(impl)
    # ---- class D bookkeeping ----
    if op in SPELLED:
        ctx["spell"].setdefault((op, " ".join(a[1:])), {})[a[0]] = (impl, rq)
    # ---- property oracle on the implementation's own output ----
    po = oracle(op, a, impl, ref)
    # ---- model against reference and implementation ----
    tm_ = tag(model)
    if tm_ in ("ok", "err"):
        ctx["nontrivial"].add((op, a[0] if op in SPELLED else "", shape_key(op, a), tm_))
        bump(ctx, "outcome:" + tm_)
    if (ref[0] == "err") != (tm_ == "err") or (ref[0] == "undef") != (tm_ == "undef"):
        out.append(fail("corr", clause_of(op, a) + ": model outcome %s, definition says %s" % (tm_, ref[0]), ""))
    elif tm_ == "ok":
        tm = toks(model)
        if ref[0] == "sq":
            if fr(tm[0]) != ref[1]:
                out.append(fail("corr", clause_of(op, a) + ": model differs from the definition", ""))
        else:
            mi = model_items(op, tm)
            if len(mi) != len(ref[1]) or any(x[0] != y[0] if y[0] != "int" else x != y for x, y in zip(mi, ref[1])):
                out.append(fail("corr", clause_of(op, a) + ": model differs from the definition", ""))
            elif both and not po:
                # class B: implementation against the model (same tolerance)
                exact = inputs_exact(a)
                d = check_values(op, ("ok", [(m[0], r[1]) if m[0] != "int" else m for m, r in zip(mi, ref[1])], ref[2]), ti, exact)
                if d:
                    out.append(fail("corr", clause_of(op, a) + ": implementation differs from the model", d))
    if po:
        # the outcome failures of std_outcome are the same finding: keep one record
        return [fail("prop", clause_of(op, a) + ": " + po[0], po[1])] + [f for f in out if f["kind"] == "corr" and "model" in f["clause"] and "definition" in f["clause"]]
    return fs + out


def oracle(op, a, impl, ref):
    """None, or (clause, detail): the property fails on this request for the implementation"""
    ti_ = tag(impl)
    if crashed(impl):
        return ("crash / sanitizer report / silent exit (" + ti_ + ")", impl[:200])
    if ref[0] == "undef":
        return None
    if ref[0] == "err":
        if ti_ != "err":
            return ("non-conformable or out-of-range request did not stop with a diagnostic", impl[:200])
        return None
    if ti_ == "err":
        return ("conformable request terminated the process", "")
    if ti_ != "ok":
        return None
    ti = toks(impl)
    if ref[0] == "sq":
        d = check_sq(ref, ti)
        return ("Norm is not the root of the sum of squares", d) if d else None
    if op == "c04.laws":
        bad = [LAW_NAMES[i] for i, t in enumerate(ti) if t != "1"]
        if len(ti) != 4 or bad:
            return ("algebraic law fails exactly: " + "; ".join(bad), "")
        return None
    d = check_values(op, ref, ti, inputs_exact(a))
    if d:
        return ("result differs from the definition", d)
    return None


def oracle_only(rq, impl, ctx):
    op = rq.split(" ", 1)[0]
    a = rq.split()[1:]
    ref = pyref(op, a)
    if ref is None:
        return []
    if op in SPELLED:
        ctx.setdefault("spell", {}).setdefault((op, " ".join(a[1:])), {})[a[0]] = (impl, rq)
    po = oracle(op, a, impl, ref)
    return [fail("prop", clause_of(op, a) + ": " + po[0], po[1])] if po else []


def shape_key(op, a):
    """operand shapes of a request (for the coverage count)"""
    c = Cur(a)
    try:
        if op in SPELLED:
            c.tok()
        ks = []
        kinds = {"c04.plus": "MM", "c04.minus": "MM", "c04.mul": "MM", "c04.meq": "MM", "c04.laws": "MM",
                 "c04.smul": "M", "c04.sdiv": "M", "c04.matvec": "MV", "c04.vecmat": "VM", "c04.transpose": "M",
                 "c04.trace": "M", "c04.subm": "Mii", "c04.delrow": "Mi", "c04.delcol": "Mi", "c04.retrow": "Mi",
                 "c04.retcol": "Mi", "c04.preds": "M", "c04.mnorm": "M", "c04.mget": "Mii", "c04.outer": "VV",
                 "c04.dot": "VV", "c04.cross": "VV", "c04.vadd": "VV", "c04.vsub": "VV", "c04.veq": "VV",
                 "c04.vsmul": "V", "c04.vsdiv": "V", "c04.vnorm": "V", "c04.vget": "Vi", "c04.diag": "V"}.get(op)
        if kinds is None:
            return tuple(a[:2])
        for k in kinds:
            if k == "M":
                r, cc, _ = c.mat(); ks.append((r, cc))
            elif k == "V":
                ks.append(len(c.vec()))
            else:
                ks.append(min(u32(c.int()), 9))
        return tuple(ks)
    except Exception:
        return ("?",)


def finalize(ctx, exe):
    """class D: all spellings of one operation on the same operands are bit-identical"""
    out = []
    for (op, rest), d in ctx.get("spell", {}).items():
        vals = {sp: v[0] for sp, v in d.items()}
        if len(set(vals.values())) > 1 and not any(crashed(v) for v in vals.values()):
            sps = sorted(vals)
            names = ", ".join("%s -> %s" % (SP_NAME.get((op, s), s), vals[s][:60]) for s in sps)
            out.append(dict(fail("prop", op[4:] + ": spellings of the same operation are not bit-identical", names),
                            req=d[sps[-1]][1], impl=vals[sps[-1]]))
        ctx["nontrivial"].add(("spellings", op, len(vals)))
    return out
