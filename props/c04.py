"""C04 — vector and matrix algebra obeys the algebraic laws for every conformable shape.

Correspondence: class B (values, tolerance K*eps*sum|terms|; exact on the dyadic family), class A
(outcome ok / diagnostic exit on conformable / non-conformable shapes, forked child under
ASan+UBSan), class D (every spelling of one operation bit-identical).  The property oracle is an
independent exact reference in Python (`pyref`): the definitions of the property evaluated with
`fractions.Fraction` on the request, compared with the implementation's own output.
"""
import itertools, math, random
from fractions import Fraction
from common import *

RULE = ("shape triples (m,n,k) are enumerated exhaustively (quick: 1..4, thorough: 1..5) and drawn at random up to 8; "
        "for every shape each public member / free operator / spelling is requested on a dyadic (exactly representable "
        "arithmetic) and a mixed-magnitude entry family; non-conformable pairs (transposed, off by one in rows, in "
        "columns) and out-of-range indices are requested for every guarded entry point. A case is non-trivial when the "
        "model answers ok or err; it is counted once per distinct (operation, spelling, operand shapes, outcome).")
CORR_ONLY = ["Normalize/Normalized of vectors with an irrational norm: the rational model answers undef; decided by the oracle "
             "against a 300-bit square root",
             "Vector::Norm / Matrix::Norm: the model gives the exact sum of squares; the square root is compared "
             "through its square (DESIGN.md C04 [T2])"]
ASSUMPTIONS = ["bitwise clauses: IEEE-754 binary64, round to nearest even, no fused multiply-add contraction (the project's x86-64 build has "
               "none); sums start at +0.0 and run in the loop order of the C++; the sign of a zero is not compared",
               "subnormal family: gradual underflow (one rounding costs at most 2^-1075 absolutely); products and sums stay below 1e301",
               "IEEE-754 double arithmetic with round-to-nearest: |fl(x op y) - (x op y)| <= 2^-53 |x op y| "
               "(tolerances are the standard forward bounds (n+2)*2^-53*sum|terms| of a length-n accumulation)",
               "the mixed-magnitude family keeps |entries| within 1e-21..1e21 (no overflow, no underflow)"]
TRUSTED = ["props/c04.py `pyref`: the property's definitions written a second time in Python (exact Fractions)"]

Z = Fraction(0)
# clauses / families that wait for a patch of the integrator: while an id is listed here the family is not requested;
# LP_ASSUME_FIXED=<id,...> requests it (rehearsal against a patched tree)
PENDING = set()          # P13 applied in /repo as 75466a1


def pending(pid):
    import os
    return pid in PENDING and pid not in os.environ.get("LP_ASSUME_FIXED", "").split(",")



# --------------------------------------------------------------------------------------------------
# request construction
# --------------------------------------------------------------------------------------------------

def mat_tok(M):
    r = len(M)
    c = M.ncols if hasattr(M, "ncols") else (len(M[0]) if r else 0)
    es = [hx(x) for row in M for x in row]
    return " ".join([str(r), str(c)] + es)


class Rows(list):
    """list of rows that remembers its column count (for 0-row matrices)"""
    def __init__(self, rows, ncols):
        super().__init__(rows)
        self.ncols = ncols


DBL_MIN = 2.2250738585072014e-308
SUB_SMALL = [5e-324, 1e-310, 1.5e-320, 2.2250738585072009e-308, DBL_MIN, 2.225073858507202e-308, 1e-300, 3e-309, 7e-315]
SUB_BIG = [1e300, 1e290, 3e299, 1.0, 0.5, 3.0, 1e-5, 1e150]


def entry(rng, fam):
    if fam == "sbL":      # subnormal / smallest-normal-boundary magnitudes, zeros, units
        c = rng.random()
        if c < 0.12:
            return 0.0
        if c < 0.22:
            return rng.choice([1.0, -1.0])
        return rng.choice([-1.0, 1.0]) * rng.choice(SUB_SMALL)
    if fam == "sbR":      # huge partners (products with the above are normal and do not overflow)
        c = rng.random()
        if c < 0.1:
            return 0.0
        return rng.choice([-1.0, 1.0]) * rng.choice(SUB_BIG)
    if fam == "dy":
        c = rng.random()
        if c < 0.03:
            return -0.0          # the sign of a zero is not part of the value: exercised
        if c < 0.12:
            return 0.0
        return dyadic(rng, -16, 16, 4)
    c = rng.random()
    if c < 0.03:
        return -0.0
    if c < 0.1:
        return 0.0
    if c < 0.2:
        return float(rng.randint(-3, 3))
    return mixed_magnitude(rng, -20, 20)


def rmat(rng, r, c, fam):
    return Rows([[entry(rng, fam) for _ in range(c)] for _ in range(r)], c)


def rvec(rng, n, fam):
    return [entry(rng, fam) for _ in range(n)]


def scalar(rng, fam, nonzero=False):
    while True:
        s = rng.choice([0.5, 2.0, -4.0, 0.25, 1.0, -1.0, 3.0, 0.0]) if fam == "dy" else entry(rng, fam)
        if not (nonzero and s == 0.0):
            return s


def special_square(rng, n, fam, kind):
    M = rmat(rng, n, n, fam)
    for i in range(n):
        for j in range(i + 1, n):
            if kind in ("sym", "symx"):
                M[j][i] = M[i][j]
            elif kind in ("asym", "asymx"):
                M[j][i] = -M[i][j]
            elif kind in ("diag", "diagx"):
                M[j][i] = 0.0; M[i][j] = 0.0
    if kind in ("asym", "asymx"):
        for i in range(n):
            M[i][i] = 0.0
    if kind.endswith("x") and n >= 2:   # near miss: one entry of the lower triangle / diagonal disturbed
        i = rng.randrange(1, n); j = rng.randrange(0, i)
        M[i][j] = M[i][j] + 1.0 if M[i][j] == 0 or fam == "dy" else M[i][j] * (1 + 2.0 ** -52)
        if kind == "asymx" and rng.random() < 0.3:
            M[i][j] = -M[j][i]
            M[0][0] = 1.0
    return M


def unary_block(R, rng, m, n, fam):
    A = rmat(rng, m, n, fam); B = rmat(rng, m, n, fam)
    a, b = mat_tok(A), mat_tok(B)
    for sp in "moa":
        R.append("c04.plus %s %s %s" % (sp, a, b))
        R.append("c04.minus %s %s %s" % (sp, a, b))
    s = scalar(rng, fam)
    for sp in "mof":
        R.append("c04.smul %s %s %s" % (sp, a, hx(s)))
    s = scalar(rng, fam, nonzero=True)
    for sp in "mo":
        R.append("c04.sdiv %s %s %s" % (sp, a, hx(s)))
    v = rvec(rng, n, fam); w = rvec(rng, m, fam)
    for sp in "mo":
        R.append("c04.matvec %s %s %s" % (sp, a, lst(v)))
    R.append("c04.vecmat %s %s" % (lst(w), a))
    R.append("c04.transpose " + a)
    R.append("c04.preds " + a)
    R.append("c04.trace " + a)
    R.append("c04.mnorm " + a)
    R.append("c04.meq %s %s" % (a, a if rng.random() < 0.5 else b))
    R.append("c04.subm %s %d %d" % (a, rng.randrange(m), rng.randrange(n)))
    R.append("c04.delrow %s %d" % (a, rng.randrange(m)))
    R.append("c04.delcol %s %d" % (a, rng.randrange(n)))
    R.append("c04.retrow %s %d" % (a, rng.randrange(m)))
    R.append("c04.retcol %s %d" % (a, rng.randrange(n)))
    R.append("c04.mget %s %d %d" % (a, rng.randrange(m), rng.randrange(n)))
    R.append("c04.outer %s %s" % (lst(w), lst(v)))
    R.append("c04.ctor %d %s" % (m, " ".join(lst(r) for r in A)))
    R.append("c04.const %d %d %s" % (m, n, hx(entry(rng, fam))))


def vector_block(R, rng, n, fam):
    u, v = rvec(rng, n, fam), rvec(rng, n, fam)
    for sp in "mo":
        R.append("c04.dot %s %s %s" % (sp, lst(u), lst(v)))
    for sp in "oa":
        R.append("c04.vadd %s %s %s" % (sp, lst(u), lst(v)))
        R.append("c04.vsub %s %s %s" % (sp, lst(u), lst(v)))
    s = scalar(rng, fam)
    for sp in "of":
        R.append("c04.vsmul %s %s %s" % (sp, lst(u), hx(s)))
    R.append("c04.vsdiv %s %s" % (lst(u), hx(scalar(rng, fam, nonzero=True))))
    R.append("c04.veq %s %s" % (lst(u), lst(u if rng.random() < 0.5 else v)))
    R.append("c04.vnorm " + lst(u))
    R.append("c04.vget %s %d" % (lst(u), rng.randrange(n)))
    R.append("c04.diag " + lst(u))
    if n == 3:
        R.append("c04.cross %s %s" % (lst(u), lst(v)))
    for kind in ("sym", "symx", "asym", "asymx", "diag", "diagx"):
        R.append("c04.preds " + mat_tok(special_square(rng, n, fam, kind)))


def triple_block(R, rng, m, n, k, fam):
    A = rmat(rng, m, n, fam); B = rmat(rng, n, k, fam)
    for sp in "mo":
        R.append("c04.mul %s %s %s" % (sp, mat_tok(A), mat_tok(B)))
    R.append("c04.laws %s %s" % (mat_tok(A), mat_tok(B)))
    # 2x2 block grid: row heights (m, k), column widths (n, m)
    g = [[rmat(rng, m, n, fam), rmat(rng, m, m, fam)], [rmat(rng, k, n, fam), rmat(rng, k, m, fam)]]
    R.append("c04.block 2 2 " + " ".join(mat_tok(x) for row in g for x in row))


def grid_block(R, rng, fam, valid):
    nr, nc = rng.randint(1, 3), rng.randint(1, 3)
    hs = [rng.randint(1, 3) for _ in range(nr)]
    ws = [rng.randint(1, 3) for _ in range(nc)]
    dims = [[[hs[i], ws[j]] for j in range(nc)] for i in range(nr)]
    if not valid:
        i, j = rng.randrange(nr), rng.randrange(nc)
        if nr * nc == 1:
            return
        which = rng.randrange(2)
        if (which == 0 and nc == 1) or (which == 1 and nr == 1):
            which = 1 - which
        dims[i][j][which] += rng.choice([1, -1]) if dims[i][j][which] > 1 else 1
    R.append("c04.block %d %d %s" % (nr, nc, " ".join(mat_tok(rmat(rng, d[0], d[1], fam)) for row in dims for d in row)))



STRUCT_KINDS = ["identity", "unit_lower", "unit_upper", "unit_diag", "diag", "perm", "id_one_off", "zero", "zero_row", "zero_col",
                "corr"]


def struct_mat(rng, r, c, kind, fam):
    """structured operands of the products: shapes r x c (square kinds need r == c, else a generic matrix with the
    structure on its leading square block)"""
    M = rmat(rng, r, c, fam)
    nz = lambda: next(x for x in iter(lambda: entry(rng, fam), None) if x != 0.0)
    k = min(r, c)
    if kind == "zero":
        return Rows([[0.0] * c for _ in range(r)], c)
    if kind == "zero_row":
        M[rng.randrange(r)] = [0.0] * c; return M
    if kind == "zero_col":
        j = rng.randrange(c)
        for row in M:
            row[j] = 0.0
        return M
    for i in range(r):
        for j in range(c):
            if kind == "identity":
                M[i][j] = 1.0 if i == j else 0.0
            elif kind == "unit_lower":
                M[i][j] = 1.0 if i == j else (nz() if j < i else 0.0)
            elif kind == "unit_upper":
                M[i][j] = 1.0 if i == j else (nz() if j > i else 0.0)
            elif kind == "unit_diag":
                M[i][j] = 1.0 if i == j else nz()
            elif kind == "diag":
                M[i][j] = nz() if i == j else 0.0
            elif kind == "id_one_off":
                M[i][j] = 1.0 if i == j else 0.0
            elif kind == "corr":      # correlation type: unit diagonal, symmetric off-diagonals in (-1,1)
                M[i][j] = 1.0 if i == j else (M[j][i] if j < i and j < r and i < c else rng.choice([0.5, -0.25, 0.125, 0.75, -0.5]))
    if kind == "corr":
        for i in range(r):
            for j in range(c):
                if j < i and i < c and j < r:
                    M[i][j] = M[j][i]
    if kind == "id_one_off" and max(r, c) >= 2:
        while True:
            i, j = rng.randrange(r), rng.randrange(c)
            if i != j:
                M[i][j] = nz(); break
    if kind == "perm":
        p = list(range(k)); rng.shuffle(p)
        if k >= 2 and p == sorted(p):
            p[0], p[1] = p[1], p[0]
        for i in range(r):
            for j in range(c):
                M[i][j] = 1.0 if (i < k and p[i] == j) else 0.0
    return M


def struct_block(R, rng, thorough):
    """products (all spellings, laws), matrix-vector, vector-matrix and outer products on structured operands"""
    fams = ("dy", "mx")
    cnt = 0
    for n in range(1, (5 if thorough else 4) + 1):
        for kind in STRUCT_KINDS:
            for m in sorted({1, n + 1} if not thorough else {1, 2, n, n + 1}):
                fam = fams[cnt % 2]; cnt += 1
                S = struct_mat(rng, n, n, kind, fam)
                G = rmat(rng, m, n, fam); H = rmat(rng, n, m, fam)
                S2 = struct_mat(rng, n, n, rng.choice(STRUCT_KINDS), fam)
                pairs = [(G, S), (S, H), (S, S2), (S2, S)]
                if kind in ("zero", "zero_row", "zero_col", "unit_diag", "unit_lower", "unit_upper", "diag"):   # non-square too
                    pairs.append((G, struct_mat(rng, n, m, kind, fam)))
                    pairs.append((struct_mat(rng, m, n, kind, fam), H))
                for (A, B) in pairs:
                    for sp in "mo":
                        R.append("c04.mul %s %s %s" % (sp, mat_tok(A), mat_tok(B)))
                    R.append("c04.laws %s %s" % (mat_tok(A), mat_tok(B)))
            # vectors: zero, unit, ones against the structured matrix and against generic ones
            fam = fams[cnt % 2]
            S = struct_mat(rng, n, n, kind, fam); m = rng.randint(1, 4)
            G = rmat(rng, m, n, fam); H = rmat(rng, n, m, fam)
            e = rng.randrange(n)
            for v in ([0.0] * n, [1.0 if i == e else 0.0 for i in range(n)], [1.0] * n):
                for sp in "mo":
                    R.append("c04.matvec %s %s %s" % (sp, mat_tok(S), lst(v)))
                R.append("c04.vecmat %s %s" % (lst(v), mat_tok(S)))
                R.append("c04.matvec m %s %s" % (mat_tok(G), lst(v)))
                R.append("c04.vecmat %s %s" % (lst(v), mat_tok(H)))
                R.append("c04.outer %s %s" % (lst(v), lst(rvec(rng, m, fam))))
                R.append("c04.outer %s %s" % (lst(rvec(rng, m, fam)), lst(v)))
                R.append("c04.dot m %s %s" % (lst(v), lst(rvec(rng, n, fam))))
    # scalar spellings on structured matrices (s*M, M*s, Product(s))
    for kind in STRUCT_KINDS:
        S = struct_mat(rng, 3, 3, kind, "dy")
        for sp in "mof":
            R.append("c04.smul %s %s %s" % (sp, mat_tok(S), hx(rng.choice([0.0, 1.0, -1.0, 2.5]))))


def pred_block(R):
    """deterministic: matrices that meet the definition of Symmetric / Antisymmetric / Diagonal except for exactly one
    entry (each position class), traceless non-zero diagonals with exactly antisymmetric off-diagonals, non-square shapes"""
    out = []
    def emit(M):
        out.append("c04.preds " + mat_tok(Rows([[float(x) for x in r] for r in M], len(M[0]))))
    import copy
    for n in (1, 2, 3, 4):
        val = lambda i, j: float(1 + ((3 * i + 5 * j) % 7))
        sym = [[val(min(i, j), max(i, j)) for j in range(n)] for i in range(n)]
        sym0 = [[0.0 if i == j else sym[i][j] for j in range(n)] for i in range(n)]          # symmetric, zero diagonal
        asym = [[0.0 if i == j else (val(i, j) if i < j else -val(j, i)) for j in range(n)] for i in range(n)]
        dg = [[val(i, i) if i == j else 0.0 for j in range(n)] for i in range(n)]
        zero = [[0.0] * n for _ in range(n)]
        bases = [sym, sym0, asym, dg, zero, [[1.0 if i == j else 0.0 for j in range(n)] for i in range(n)]]
        for Bm in bases:
            emit(Bm)
            for i in range(n):
                for j in range(n):
                    for delta in (1.0, -2.0, 2.0 ** -40):
                        M = copy.deepcopy(Bm); M[i][j] = M[i][j] + delta; emit(M)
                    M = copy.deepcopy(Bm); M[i][j] = -M[i][j]
                    if M != Bm:
                        emit(M)
        # antisymmetric off-diagonals with a non-zero diagonal: traceless and not traceless
        if n >= 2:
            for d in ([-1.0, 1.0] + [0.0] * (n - 2), [2.0, -1.0, -1.0, 0.0][:n] if n >= 3 else [0.5, -0.5], [1.0] * n,
                      [0.0] * (n - 1) + [3.0], [1e-300] + [0.0] * (n - 2) + [-1e-300]):
                M = copy.deepcopy(asym)
                for i in range(n):
                    M[i][i] = d[i]
                emit(M)
                M2 = copy.deepcopy(zero)                 # zero off-diagonals as well
                for i in range(n):
                    M2[i][i] = d[i]
                emit(M2)
            for x in (1.0, 2.5, -3.0):
                if n == 2:
                    emit([[-1.0, x], [-x, 1.0]]); emit([[1.0, x], [-x, -1.0]]); emit([[0.0, x], [-x, 0.0]]); emit([[0.0, x], [x, 0.0]])
        # symmetric / antisymmetric only in the upper-left block of a non-square matrix
        emit([r + [0.0] for r in sym]); emit(asym + [[0.0] * n]); emit(dg + [[0.0] * n]); emit([r + [0.0] for r in zero])
    seen = set()
    for r in out:
        if r not in seen:
            seen.add(r); R.append(r)



def subnormal_block(R, rng, thorough):
    """every product / sum identity with non-zero subnormal and smallest-normal entries, mixed with huge partners so
    that the products are normal; structured (identity, unit diagonal) partners as well"""
    shapes = [(m, n, k) for m in (1, 2, 3) for n in (1, 2, 3) for k in (1, 2, 3)] if thorough else \
             [(1, 1, 1), (1, 2, 1), (2, 1, 2), (2, 2, 2), (2, 3, 1), (3, 2, 3), (1, 3, 2), (3, 3, 3), (2, 2, 1), (3, 1, 1)]
    shapes += [(rng.randint(1, 6), rng.randint(1, 6), rng.randint(1, 6)) for _ in range(20 if thorough else 6)]
    for (m, n, k) in shapes:
        for (fa, fb) in (("sbL", "sbR"), ("sbR", "sbL"), ("sbL", "sbL")):
            A = rmat(rng, m, n, fa); B = rmat(rng, n, k, fb)
            for sp in "mo":
                R.append("c04.mul %s %s %s" % (sp, mat_tok(A), mat_tok(B)))
            R.append("c04.laws %s %s" % (mat_tok(A), mat_tok(B)))
            v = rvec(rng, n, fb); w = rvec(rng, m, fb)
            for sp in "mo":
                R.append("c04.matvec %s %s %s" % (sp, mat_tok(A), lst(v)))
                R.append("c04.dot %s %s %s" % (sp, lst(rvec(rng, n, fa)), lst(v)))
            R.append("c04.mul m %s %s" % (mat_tok(A), mat_tok(Rows([[x] for x in v], 1))))     # A * column(v)
            R.append("c04.vecmat %s %s" % (lst(w), mat_tok(A)))
            R.append("c04.mul m %s %s" % (mat_tok(Rows([w], m)), mat_tok(A)))                   # row(w) * A
            R.append("c04.outer %s %s" % (lst(rvec(rng, m, fa)), lst(rvec(rng, k, fb))))
            if fa != fb:
                s_ = entry(rng, fb)
                for sp in "mof":
                    R.append("c04.smul %s %s %s" % (sp, mat_tok(A), hx(s_)))
                for sp in "of":
                    R.append("c04.vsmul %s %s %s" % (sp, lst(rvec(rng, n, fa)), hx(s_)))
        A = rmat(rng, m, n, "sbL"); A2 = rmat(rng, m, n, rng.choice(["sbL", "dy"]))
        for sp in "moa":
            R.append("c04.plus %s %s %s" % (sp, mat_tok(A), mat_tok(A2)))
            R.append("c04.minus %s %s %s" % (sp, mat_tok(A), mat_tok(A2)))
        for sp in "oa":
            R.append("c04.vadd %s %s %s" % (sp, lst(rvec(rng, n, "sbL")), lst(rvec(rng, n, "sbL"))))
        R.append("c04.transpose " + mat_tok(A)); R.append("c04.trace " + mat_tok(rmat(rng, n, n, "sbL")))
        for kind in ("identity", "unit_diag", "perm", "diag"):
            S = struct_mat(rng, n, n, kind, "sbR" if kind != "identity" else "dy")
            for sp in "mo":
                R.append("c04.mul %s %s %s" % (sp, mat_tok(A), mat_tok(S)))
            R.append("c04.laws %s %s" % (mat_tok(A), mat_tok(S)))
            R.append("c04.mul m %s %s" % (mat_tok(struct_mat(rng, m, m, kind, "sbL" if kind != "identity" else "dy")), mat_tok(rmat(rng, m, n, "sbR"))))


def chain_block(R, rng, thorough):
    """chained compound assignment (x op b) op c ..., all sign patterns, Matrix and Vector; some with a non-conformable step"""
    import itertools as _it
    pats = ["".join(p) for L in (1, 2, 3) for p in _it.product("+-", repeat=L)]
    for rep in range(4 if thorough else 1):
        for sg in pats:
            for fam in ("dy", "mx"):
                m, n = rng.randint(1, 4), rng.randint(1, 4)
                X = rmat(rng, m, n, fam); bs = [rmat(rng, m, n, fam) for _ in sg]
                R.append("c04.mchain %s %s %s" % (sg, mat_tok(X), " ".join(mat_tok(b) for b in bs)))
                k = rng.randint(1, 6)
                x = rvec(rng, k, fam); vs = [rvec(rng, k, fam) for _ in sg]
                R.append("c04.vchain %s %s %s" % (sg, lst(x), " ".join(lst(v) for v in vs)))
            if len(sg) >= 2:      # the last step does not conform
                m, n = rng.randint(1, 3), rng.randint(1, 3)
                X = rmat(rng, m, n, "dy"); bs = [rmat(rng, m, n, "dy") for _ in sg[:-1]] + [rmat(rng, n + 1, m, "dy")]
                R.append("c04.mchain %s %s %s" % (sg, mat_tok(X), " ".join(mat_tok(b) for b in bs)))
                x = rvec(rng, 3, "dy"); vs = [rvec(rng, 3, "dy") for _ in sg[:-1]] + [rvec(rng, 2, "dy")]
                R.append("c04.vchain %s %s %s" % (sg, lst(x), " ".join(lst(v) for v in vs)))



def wide_norm_block(R, rng, thorough):
    """Vector::Norm over the whole double range (fix 8a680df): huge, tiny, subnormal and mixed entries whose norm is representable"""
    def wide(kind):
        if kind == "huge":
            return rng.choice([-1, 1]) * rng.uniform(1, 9) * 10.0 ** rng.randint(150, 306)
        if kind == "tiny":
            return rng.choice([-1, 1]) * rng.uniform(1, 9) * 10.0 ** rng.randint(-306, -150)
        if kind == "sub":
            return rng.choice([-1, 1]) * rng.choice(SUB_SMALL)
        return rng.choice([-1, 1]) * rng.uniform(1, 9) * 10.0 ** rng.randint(-320, 306)
    for _ in range(400 if thorough else 100):
        n = rng.randint(1, 8)
        kind = rng.choice(["huge", "tiny", "sub", "any", "mixed"])
        v = [wide(kind if kind != "mixed" else rng.choice(["huge", "tiny", "sub", "any"])) if rng.random() > 0.1 else 0.0 for _ in range(n)]
        if kind == "huge" and rng.random() < 0.5:      # all of the same huge magnitude: the squares overflow, the norm does not
            m_ = 10.0 ** rng.randint(155, 306)
            v = [rng.choice([-1, 1]) * rng.uniform(1, 9) * m_ for _ in range(n)]
        if sum(Fraction(x) ** 2 for x in v) >= Fraction(10) ** 616:   # norm itself not representable
            continue
        R.append("c04.vnorm " + lst(v))
        if any(x != 0 for x in v):
            R.append("c04.vhist %s 3 N D N" % lst(v) if max(abs(x) for x in v) < 1e150 and min(abs(x) for x in v if x) > 1e-150 else "c04.vnorm " + lst([-x for x in v]))


def rowcol_block(R, rng, thorough):
    """matrix-vector, vector-matrix, outer and dot products against the products of the row / column matrices (zero slack)"""
    for _ in range(300 if thorough else 80):
        m, n = rng.randint(1, 6), rng.randint(1, 6)
        fam = rng.choice(["dy", "mx", "mx", "sbL", "sbR"])
        fv = {"sbL": "sbR", "sbR": "sbL"}.get(fam, fam)
        R.append("c04.rowcol %s %s %s" % (mat_tok(rmat(rng, m, n, fam)), lst(rvec(rng, n, fv)), lst(rvec(rng, m, fv))))



def normalized_scale_block(R, rng, thorough):
    """Normalize / Normalized on vectors of every length scale (fix a1cdfe7): Pythagorean tuples times 2^k, down to subnormal
    lengths (the norm is a rational, so the model is exact)"""
    ks = [-1074, -1073, -1072, -1070, -1060, -1040, -1023, -1022, -1000, -600, -30, 0, 40, 600, 1000, 1015]
    for k in ks:
        for t in (PYTHAG if thorough else rng.sample(PYTHAG, 4)):
            sg = [rng.choice([-1, 1]) for _ in t]
            try:
                v = [math.ldexp(x * g, k) for x, g in zip(t, sg)]
            except OverflowError:
                continue
            # the scaled tuple must be represented exactly (no underflow rounding, no overflow)
            if any(math.isinf(x) for x in v) or any(Fraction(x) != Fraction(y) * g * Fraction(2) ** k for x, y, g in zip(v, t, sg)):
                continue
            if True:
                R.append("c04.vhist %s 5 M N U N R 0" % lst(v))
    # irrational norms (oracle only: the exact model has no root for them): small integer tuples times 2^k
    for k in ks:
        for t in ([1.0, 1.0], [1.0, 2.0], [1.0, 1.0, 1.0], [2.0, 3.0, 5.0], [1.0, 0.0, 3.0, 1.0], [7.0, 1.0]):
            try:
                v = [math.ldexp(x * rng.choice([-1, 1]), k) for x in t]
            except OverflowError:
                continue
            if any(math.isinf(x) for x in v):
                continue
            R.append("c04.vhist %s 4 M U N R 0" % lst(v))



def layout_block(R, rng, thorough):
    """block constructor on empty, ragged and rectangular lists of rows of blocks (fix f27d82c)"""
    def row_tok(blocks):
        return "%d%s" % (len(blocks), "".join(" " + mat_tok(b) for b in blocks))
    R.append("c04.blockr 0")                       # no row of blocks
    R.append("c04.blockr 1 0")                     # one empty row
    R.append("c04.blockr 2 0 0")
    for _ in range(60 if thorough else 20):
        nr = rng.randint(1, 3); nc = rng.randint(1, 3)
        hs = [rng.randint(1, 3) for _ in range(nr)]; ws = [rng.randint(1, 3) for _ in range(nc + 1)]
        counts = [nc] * nr
        kind = rng.choice(["rect", "short", "long", "empty_row", "first_empty"])
        if kind == "short" and nr >= 2 and nc >= 2:
            counts[rng.randrange(1, nr)] = nc - 1
        elif kind == "long" and nr >= 2:
            counts[rng.randrange(1, nr)] = nc + 1
        elif kind == "empty_row" and nr >= 2:
            counts[rng.randrange(1, nr)] = 0
        elif kind == "first_empty":
            counts[0] = 0
        elif kind == "short" and nr >= 2:
            counts[0] = nc + 1                    # the FIRST row is the longer one
        g = [[rmat(rng, hs[i], ws[j], "dy") for j in range(counts[i])] for i in range(nr)]
        R.append("c04.blockr %d %s" % (nr, " ".join(row_tok(row) for row in g)))



def gaps_block(R, rng, thorough):
    """audit 2, check-side gaps: Cross = skew(u) v and Dot(p,q) = row*column (p != q) at zero slack; non-conformable partners
    with the same number of elements; aliasing spellings; Matrix::Norm over the whole double range (pending P13)"""
    for _ in range(200 if thorough else 50):
        fam = rng.choice(["dy", "mx", "mx", "sbL"])
        fq = {"sbL": "sbR"}.get(fam, fam)
        n = rng.randint(1, 7)
        R.append("c04.crossdot %s %s %s %s" % (lst(rvec(rng, 3, fam)), lst(rvec(rng, 3, fq)), lst(rvec(rng, n, fam)), lst(rvec(rng, n, fq))))
    # same element count, different shape: every spelling must stop with the diagnostic
    for (s1, s2) in [((2, 6), (3, 4)), ((1, 4), (2, 2)), ((2, 2), (1, 4)), ((2, 2), (4, 1)), ((3, 4), (4, 3)), ((1, 6), (2, 3)), ((6, 1), (1, 6)),
                     ((2, 3), (3, 2)), ((4, 4), (2, 8)), ((1, 1), (1, 1))]:
        fam = rng.choice(["dy", "mx"])
        a = mat_tok(rmat(rng, s1[0], s1[1], fam)); b = mat_tok(rmat(rng, s2[0], s2[1], fam))
        for sp in "moa":
            R.append("c04.plus %s %s %s" % (sp, a, b)); R.append("c04.minus %s %s %s" % (sp, a, b))
        for sp in "mo":
            R.append("c04.mul %s %s %s" % (sp, a, b))
        R.append("c04.meq %s %s" % (a, b))
        R.append("c04.mchain +- %s %s %s" % (a, a, b))
    # aliasing
    for _ in range(60 if thorough else 16):
        fam = rng.choice(["dy", "mx"])
        m, n = rng.randint(1, 5), rng.randint(1, 5)
        A = rmat(rng, m, n, fam); S = rmat(rng, m, m, fam)
        R.append("c04.alias pa %s 0" % mat_tok(A)); R.append("c04.alias ma %s 0" % mat_tok(A))
        R.append("c04.alias ss %s 0" % mat_tok(S)); R.append("c04.alias vs %s %s" % (mat_tok(S), lst(rvec(rng, m, fam))))
        R.append("c04.alias vv %s %s" % (mat_tok(S), lst(rvec(rng, n, fam))))
    R.append("c04.alias ss %s 0" % mat_tok(rmat(rng, 2, 3, "dy")))          # S*S of a non-square S: diagnostic
    R.append("c04.alias vs %s %s" % (mat_tok(rmat(rng, 2, 2, "dy")), lst(rvec(rng, 3, "dy"))))
    if not pending("P13"):
        for _ in range(200 if thorough else 60):
            m, n = rng.randint(1, 4), rng.randint(1, 4)
            k = rng.choice([-300, -200, -160, 0, 150, 200, 300])
            M = Rows([[rng.choice([-1, 1]) * rng.uniform(1, 9) * 10.0 ** (k + rng.randint(-3, 3)) if rng.random() > 0.1 else 0.0 for _ in range(n)] for _ in range(m)], n)
            if sum(Fraction(x) ** 2 for r in M for x in r) < Fraction(10) ** 614:
                R.append("c04.mnorm " + mat_tok(M))
        R.append("c04.mnorm 1 2 %s %s" % (hx(3e200), hx(4e200))); R.append("c04.mnorm 1 2 %s %s" % (hx(3e-170), hx(4e-170)))



def moves_block(R, rng, thorough):
    """objects constructed from rvalues (swap, std::move, push_back of temporaries, returned by-value parameters, lists of
    blocks): non-square and square shapes; and the rounding mode around Norm / Normalize / Normalized"""
    shapes = [(1, 2), (2, 1), (2, 3), (3, 2), (1, 4), (4, 2), (3, 3), (2, 2), (1, 1), (3, 5)]
    shapes += [(rng.randint(1, 6), rng.randint(1, 6)) for _ in range(20 if thorough else 6)]
    for (m, n) in shapes:
        fam = rng.choice(["dy", "mx"])
        for k in ("swap", "move", "push", "ret", "assign", "blocks"):
            A = rmat(rng, m, n, fam)
            B = rmat(rng, m if k == "blocks" else rng.randint(1, 5), rng.randint(1, 5), fam)
            R.append("c04.moves %s %s %s" % (k, mat_tok(A), mat_tok(B)))
        for k in ("swap", "move", "push", "ret", "assign"):
            R.append("c04.vmoves %s %s %s" % (k, lst(rvec(rng, m, fam)), lst(rvec(rng, n, fam))))
    R.append("c04.moves blocks %s %s" % (mat_tok(rmat(rng, 2, 3, "dy")), mat_tok(rmat(rng, 3, 2, "dy"))))      # heights differ: diagnostic
    for v in ([0.0], [0.0, 0.0, 0.0], [float("inf"), 1.0], [1.0, float("-inf")], [3.0, 4.0], [1e-320, 2e-320], [1e300, 1e300], [0.5]):
        for k in ("norm", "normalize", "normalized"):
            R.append("c04.fenv %s %s" % (k, lst(v)))
    for _ in range(12 if thorough else 4):
        for k in ("norm", "normalize", "normalized"):
            R.append("c04.fenv %s %s" % (k, lst(rvec(rng, rng.randint(1, 5), "mx"))))


def guard_block(R, rng, m, n, fam):
    """class A: conformable and non-conformable partners of an m x n matrix"""
    A = rmat(rng, m, n, fam); a = mat_tok(A)
    partners = {(m, n), (n, m), (m + 1, n), (m, n + 1), (m - 1, n), (m, n - 1), (n, n), (m, m)}
    for (p, q) in sorted(partners):
        if p < 1 or q < 1:
            continue
        b = mat_tok(rmat(rng, p, q, fam))
        for sp in "moa":
            R.append("c04.plus %s %s %s" % (sp, a, b))
            R.append("c04.minus %s %s %s" % (sp, a, b))
        for sp in "mo":
            R.append("c04.mul %s %s %s" % (sp, a, b))
        R.append("c04.meq %s %s" % (a, b))
    for l in sorted({n, m, n + 1, n - 1, m + 1, 0} - {-1}):
        for sp in "mo":
            R.append("c04.matvec %s %s %s" % (sp, a, lst(rvec(rng, l, fam))))
    for l in sorted({m, n, m + 1, m - 1, 0} - {-1}):
        R.append("c04.vecmat %s %s" % (lst(rvec(rng, l, fam)), a))
    R.append("c04.trace " + a)
    for (r, c) in [(-1, 0), (0, -1), (m, 0), (0, n), (m + 1, n + 1), (m - 1, n - 1), (-2147483648, 0)]:
        R.append("c04.subm %s %d %d" % (a, r, c))
    for r in (m - 1, m, m + 1, 4294967295):
        R.append("c04.delrow %s %d" % (a, r)); R.append("c04.retrow %s %d" % (a, r))
    for c in (n - 1, n, n + 1, 4294967295):
        R.append("c04.delcol %s %d" % (a, c)); R.append("c04.retcol %s %d" % (a, c))
    R.append("c04.mget %s %d %d" % (a, m, 0))
    # ragged entries
    if m >= 2:
        rows = [list(r) for r in A]
        i = rng.randrange(1, m)
        rows[i] = rows[i] + [1.0] if rng.random() < 0.5 or n == 1 else rows[i][:-1]
        R.append("c04.ctor %d %s" % (m, " ".join(lst(r) for r in rows)))


def vguard_block(R, rng, p, q, fam):
    u, v = rvec(rng, p, fam), rvec(rng, q, fam)
    for sp in "mo":
        R.append("c04.dot %s %s %s" % (sp, lst(u), lst(v)))
    for sp in "oa":
        R.append("c04.vadd %s %s %s" % (sp, lst(u), lst(v)))
        R.append("c04.vsub %s %s %s" % (sp, lst(u), lst(v)))
    R.append("c04.cross %s %s" % (lst(u), lst(v)))
    R.append("c04.veq %s %s" % (lst(u), lst(v)))
    R.append("c04.outer %s %s" % (lst(u), lst(v)))
    R.append("c04.vget %s %d" % (lst(u), p))
    R.append("c04.vget %s %d" % (lst(u), p + 1))


def generate(tier, seed, ctx):
    rng = random.Random(seed * 104729 + 4)
    thorough = tier == "thorough"
    L = 5 if thorough else 4
    R = []
    fams = ("dy", "mx")
    cnt = 0
    for m in range(1, L + 1):
        for n in range(1, L + 1):
            for fam in fams:
                unary_block(R, rng, m, n, fam)
            guard_block(R, rng, m, n, fams[cnt % 2]); cnt += 1
            for k in range(1, L + 1):
                if thorough:
                    for fam in fams:
                        triple_block(R, rng, m, n, k, fam)
                else:
                    triple_block(R, rng, m, n, k, fams[cnt % 2]); cnt += 1
    for n in range(1, 9):
        for fam in fams:
            vector_block(R, rng, n, fam)
    for p in range(0, 6):
        for q in range(0, 6):
            vguard_block(R, rng, p, q, fams[(p + q) % 2])
    # random shapes up to 8
    for _ in range(400 if thorough else 60):
        m, n, k = rng.randint(1, 8), rng.randint(1, 8), rng.randint(1, 8)
        fam = rng.choice(fams)
        triple_block(R, rng, m, n, k, fam)
        unary_block(R, rng, m, n, fam)
        if rng.random() < 0.3:
            guard_block(R, rng, m, n, fam)
    for _ in range(200 if thorough else 40):
        grid_block(R, rng, rng.choice(fams), valid=rng.random() < 0.7)
    # degenerate shapes (a dimension equal to zero)
    for (m, n) in [(0, 0), (0, 2), (2, 0), (0, 1), (1, 0)]:
        A = Rows([[] for _ in range(m)], n); a = mat_tok(A)
        R.append("c04.plus m %s %s" % (a, a)); R.append("c04.minus a %s %s" % (a, a))
        R.append("c04.transpose " + a); R.append("c04.preds " + a); R.append("c04.trace " + a)
        R.append("c04.mul m %s %s" % (a, mat_tok(Rows([[1.0] * m for _ in range(n)], m))))
        R.append("c04.matvec m %s %s" % (a, lst([1.0] * n)))
        R.append("c04.vecmat %s %s" % (lst([1.0] * m), a))
        R.append("c04.outer %s %s" % (lst([1.0] * m), lst([2.0] * n)))
        R.append("c04.mnorm " + a)
    R.append("c04.identity 0"); R.append("c04.diag 0"); R.append("c04.ctor 0"); R.append("c04.vnorm 0")
    for n in range(1, 9):
        R.append("c04.identity %d" % n)
    # object histories: one object, a sequence of member calls on it
    for _ in range(1500 if thorough else 300):
        R.append(gen_vhist(rng, rng.randint(3, 14)))
    for _ in range(1000 if thorough else 200):
        R.append(gen_mhist(rng, rng.randint(3, 12)))
    R += triple_corpus()
    layout_block(R, rng, thorough)
    struct_block(R, rng, thorough)
    subnormal_block(R, rng, thorough)
    chain_block(R, rng, thorough)
    wide_norm_block(R, rng, thorough)
    normalized_scale_block(R, rng, thorough)
    rowcol_block(R, rng, thorough)
    gaps_block(R, rng, thorough)
    moves_block(R, rng, thorough)
    pred_block(R)
    # the shortest stale-state histories as a fixed corpus
    R.append("c04.vhist 2 0x1.8p+1 0x1p+2 3 N - 2 0x1.8p+1 0x0p+0 N")
    R.append("c04.vhist 2 0x1.8p+1 0x1p+2 3 N + 2 0x1.8p+1 0x1p+2 N")
    R.append("c04.vhist 2 0x1.8p+1 0x1p+2 4 N W 0 0x0p+0 N M")
    R.append("c04.vhist 2 0x1.8p+1 0x1p+2 4 N Z 1 N D")
    R.append("c04.vhist 2 0x1.8p+1 0x1p+2 4 N A 2 0x1p+0 N D")
    R.append("c04.vhist 2 0x1.8p+1 0x1p+2 4 N = 2 0x1.8p+2 0x1p+3 N M")
    R.append("c04.vhist 2 0x1.8p+1 0x1p+2 3 N C 2 0x1.8p+1 0x0p+0 N")
    R.append("c04.vhist 2 0x1.8p+2 0x1p+3 4 N U N D")
    R.append("c04.mhist 2 2 0x1p+0 0x1p+1 0x1.8p+1 0x1p+2 8 N T D - 2 2 0x1p+0 0x0p+0 0x0p+0 0x1p+0 N T D Y")
    ctx["spell"] = {}
    return R


# --------------------------------------------------------------------------------------------------
# independent exact reference (the property's definitions)
# --------------------------------------------------------------------------------------------------

class Cur:
    def __init__(self, toks):
        self.t, self.p = toks, 0

    def tok(self):
        self.p += 1
        return self.t[self.p - 1]

    def int(self):
        return int(self.tok())

    def num(self):
        return Fraction(fl(self.tok()))

    def vec(self):
        n = self.int()
        return [self.num() for _ in range(n)]

    def mat(self):
        r, c = self.int(), self.int()
        return (r, c, [[self.num() for _ in range(c)] for _ in range(r)])


ERR = ("err",)
UNDEF = ("undef",)


def V(items, K):
    """items: list of (value, scale); K: multiple of eps*scale allowed"""
    return ("ok", items, K)


def rM(r, c, f, K, via_entries=False):
    """matrix result: header ints then entries f(i,j) -> (value, scale).  via_entries: the C++ builds the
    result through Matrix(vector<vector<double>>), which reports 0 columns when there is no row (shapes
    with a zero dimension are outside the property's quantifier; the reference follows the code there)"""
    if via_entries and r == 0:
        c = 0
    return ("ok", [("int", r), ("int", c)] + [f(i, j) for i in range(r) for j in range(c)], K)


def rV(n, f, K):
    return ("ok", [("int", n)] + [f(i) for i in range(n)], K)


def acc(terms):
    terms = list(terms)
    return (sum(terms, Z), sum((abs(t) for t in terms), Z))


def u32(i):
    return i % 2 ** 32


def pyref(op, a):
    c = Cur(a)
    if op in ("c04.vhist", "c04.mhist"):
        return hist_ref(op, a)
    if op in ("c04.plus", "c04.minus"):
        sp = c.tok(); (r, k, A), (r2, k2, B) = c.mat(), c.mat()
        if (r, k) != (r2, k2):
            return ERR
        sg = 1 if op == "c04.plus" else -1
        return rM(r, k, lambda i, j: (A[i][j] + sg * B[i][j], abs(A[i][j]) + abs(B[i][j])), 1, sp != "a")
    if op in ("c04.mchain", "c04.vchain"):
        sg = c.tok()
        if op == "c04.mchain":
            (r, k, X) = c.mat(); bs = [c.mat() for _ in sg]
            if any((b[0], b[1]) != (r, k) for b in bs):
                return ERR
            flat = lambda M: [x for row in M for x in row]
            x0 = flat(X); ops_ = [flat(b[2]) for b in bs]; hdr = [("int", r), ("int", k)]
        else:
            x0 = c.vec(); ops_ = [c.vec() for _ in sg]
            if any(len(b) != len(x0) for b in ops_):
                return ERR
            hdr = [("int", len(x0))]
        def run(nsteps):
            val = list(x0); sc = [abs(x) for x in x0]
            for ch, b in list(zip(sg, ops_))[:nsteps]:
                val = [v + (y if ch == "+" else -y) for v, y in zip(val, b)]
                sc = [s_ + abs(y) for s_, y in zip(sc, b)]
            return hdr + list(zip(val, sc))
        return V(run(len(sg)) + run(1) + run(1), len(sg))
    if op == "c04.mul":
        c.tok(); (r, k, A), (r2, k2, B) = c.mat(), c.mat()
        if k != r2:
            return ERR
        return rM(r, k2, lambda i, j: acc(A[i][t] * B[t][j] for t in range(k)), k + 2)
    if op == "c04.smul":
        c.tok(); (r, k, A) = c.mat(); s = c.num()
        return rM(r, k, lambda i, j: (s * A[i][j], abs(s * A[i][j])), 1, True)
    if op == "c04.sdiv":
        c.tok(); (r, k, A) = c.mat(); s = c.num()
        if s == 0:
            return UNDEF
        return rM(r, k, lambda i, j: (A[i][j] / s, abs(A[i][j] / s)), 1, True)
    if op == "c04.matvec":
        c.tok(); (r, k, A) = c.mat(); v = c.vec()
        if len(v) != k:
            return ERR
        return rV(r, lambda i: acc(A[i][j] * v[j] for j in range(k)), k + 2)
    if op == "c04.vecmat":
        v = c.vec(); (r, k, A) = c.mat()
        if len(v) != r:
            return ERR
        return rV(k, lambda i: acc(v[j] * A[j][i] for j in range(r)), r + 2)
    if op == "c04.transpose":
        (r, k, A) = c.mat()
        return rM(k, r, lambda i, j: (A[j][i], 0), 0, True)
    if op == "c04.trace":
        (r, k, A) = c.mat()
        if r != k:
            return ERR
        return V([acc(A[i][i] for i in range(r))], r + 2)
    if op == "c04.subm":
        (r, k, A) = c.mat(); i0, j0 = u32(c.int()), u32(c.int())
        if i0 >= r or j0 >= k:
            return ERR
        rows = [[x for j, x in enumerate(row) if j != j0] for i, row in enumerate(A) if i != i0]
        return rM(r - 1, k - 1, lambda i, j: (rows[i][j], 0), 0)
    if op in ("c04.delrow", "c04.retrow"):
        (r, k, A) = c.mat(); i0 = c.int()
        if i0 >= r:
            return ERR
        if op == "c04.retrow":
            return rV(k, lambda j: (A[i0][j], 0), 0)
        rows = [row for i, row in enumerate(A) if i != i0]
        return rM(r - 1, k, lambda i, j: (rows[i][j], 0), 0)
    if op in ("c04.delcol", "c04.retcol"):
        (r, k, A) = c.mat(); j0 = c.int()
        if j0 >= k:
            return ERR
        if op == "c04.retcol":
            return rV(r, lambda i: (A[i][j0], 0), 0)
        rows = [[x for j, x in enumerate(row) if j != j0] for row in A]
        return rM(r, k - 1, lambda i, j: (rows[i][j], 0), 0)
    if op == "c04.preds":
        (r, k, A) = c.mat()
        sq = r == k
        sym = sq and all(A[i][j] == A[j][i] for i in range(r) for j in range(r))
        asym = sq and all(A[i][j] == -A[j][i] for i in range(r) for j in range(r))
        dg = sq and all(A[i][j] == 0 for i in range(r) for j in range(r) if i != j)
        return V([("int", int(x)) for x in (sq, sym, asym, dg)], 0)
    if op == "c04.identity":
        n = c.int()
        return rM(n, n, lambda i, j: (Fraction(int(i == j)), 0), 0)
    if op == "c04.diag":
        d = c.vec()
        return rM(len(d), len(d), lambda i, j: (d[i] if i == j else Z, 0), 0)
    if op == "c04.const":
        r, k = c.int(), c.int(); e = c.num()
        return rM(r, k, lambda i, j: (e, 0), 0)
    if op == "c04.ctor":
        n = c.int(); rows = [c.vec() for _ in range(n)]
        k = len(rows[0]) if rows else 0
        if any(len(x) != k for x in rows):
            return ERR
        return rM(n, k, lambda i, j: (rows[i][j], 0), 0)
    if op in ("c04.block", "c04.blockr"):
        if op == "c04.block":
            nr, nc = c.int(), c.int()
            g = [[c.mat() for _ in range(nc)] for _ in range(nr)]
        else:
            nr = c.int(); g = []
            for _ in range(nr):
                k = c.int(); g.append([c.mat() for _ in range(k)])
        # layout (fix f27d82c): at least one row of blocks, every row the same non-zero number of blocks
        if nr == 0 or len(g[0]) == 0 or any(len(row) != len(g[0]) for row in g):
            return ERR
        nc = len(g[0])
        for i in range(nr):
            for j in range(nc):
                if g[i][j][0] != g[i][0][0] or g[i][j][1] != g[0][j][1]:
                    return ERR
        rows = []
        for i in range(nr):
            for ii in range(g[i][0][0]):
                rows.append([x for j in range(nc) for x in g[i][j][2][ii]])
        r = sum(g[i][0][0] for i in range(nr)); k = sum(g[0][j][1] for j in range(nc))
        return rM(r, k, lambda i, j: (rows[i][j], 0), 0)
    if op == "c04.outer":
        u, v = c.vec(), c.vec()
        return rM(len(u), len(v), lambda i, j: (u[i] * v[j], abs(u[i] * v[j])), 1)
    if op == "c04.dot":
        c.tok(); u, v = c.vec(), c.vec()
        if len(u) != len(v):
            return ERR
        return V([acc(x * y for x, y in zip(u, v))], len(u) + 2)
    if op == "c04.cross":
        u, v = c.vec(), c.vec()
        if len(u) != 3 or len(v) != 3:
            return ERR
        return rV(3, lambda i: acc([u[(i + 1) % 3] * v[(i + 2) % 3], -u[(i + 2) % 3] * v[(i + 1) % 3]]), 3)
    if op in ("c04.vadd", "c04.vsub"):
        c.tok(); u, v = c.vec(), c.vec()
        if len(u) != len(v):
            return ERR
        sg = 1 if op == "c04.vadd" else -1
        return rV(len(u), lambda i: (u[i] + sg * v[i], abs(u[i]) + abs(v[i])), 1)
    if op == "c04.vsmul":
        c.tok(); u = c.vec(); s = c.num()
        return rV(len(u), lambda i: (u[i] * s, abs(u[i] * s)), 1)
    if op == "c04.vsdiv":
        u = c.vec(); s = c.num()
        if s == 0:
            return UNDEF
        return rV(len(u), lambda i: (u[i] / s, abs(u[i] / s)), 1)
    if op == "c04.veq":
        u, v = c.vec(), c.vec()
        return V([("int", int(u == v))], 0)
    if op == "c04.meq":
        A, B = c.mat(), c.mat()
        return V([("int", int(A == B))], 0)
    if op == "c04.vnorm":
        u = c.vec()
        return ("sq", sum((x * x for x in u), Z), len(u))
    if op == "c04.mnorm":
        (r, k, A) = c.mat()
        return ("sq", sum((x * x for row in A for x in row), Z), r * k)
    if op == "c04.vget":
        u = c.vec(); i = c.int()
        return ERR if i >= len(u) else V([(u[i], 0)], 0)
    if op == "c04.mget":
        (r, k, A) = c.mat(); i, j = c.int(), c.int()
        if i >= r:
            return ERR
        return UNDEF if j >= k else V([(A[i][j], 0)], 0)
    if op == "c04.moves":
        k_ = c.tok(); A = c.mat(); B = c.mat()
        mi_ = lambda M: [("int", M[0]), ("int", M[1])] + [(x, 0) for row in M[2] for x in row]
        if k_ == "swap":
            return V(mi_(B) + mi_(A), 0)
        if k_ == "push":
            return V(mi_(A) + mi_(B), 0)
        if k_ == "blocks":
            if A[0] != B[0]:
                return ERR
            return V(mi_((A[0], A[1] + B[1], [ra + rb for ra, rb in zip(A[2], B[2])])), 0)
        return V(mi_(A), 0)
    if op == "c04.vmoves":
        k_ = c.tok(); u = c.vec(); v = c.vec()
        vi_ = lambda w: [("int", len(w))] + [(x, 0) for x in w]
        if k_ == "swap":
            return V(vi_(v) + vi_(u), 0)
        if k_ == "push":
            return V(vi_(u) + vi_(v), 0)
        return V(vi_(u), 0)
    if op == "c04.fenv":
        return V([("int", 1)], 0)
    if op == "c04.crossdot":
        u, v, p_, q_ = c.vec(), c.vec(), c.vec(), c.vec()
        if len(u) != 3 or len(v) != 3 or len(p_) != len(q_):
            return ERR
        return V([("int", 1)] * 2, 0)
    if op == "c04.alias":
        k_ = c.tok(); (r, k, A) = c.mat(); v = c.vec()
        if k_ == "pa":
            return rM(r, k, lambda i, j: (2 * A[i][j], 2 * abs(A[i][j])), 1)
        if k_ == "ma":
            return rM(r, k, lambda i, j: (Z, 0), 0)
        if k_ == "ss":
            if r != k:
                return ERR
            return rM(r, r, lambda i, j: acc(A[i][t] * A[t][j] for t in range(r)), r + 2)
        if k_ == "vs":
            if len(v) != r:
                return ERR
            return rV(k, lambda i: acc(v[j] * A[j][i] for j in range(r)), r + 2)
        return rV(len(v), lambda i: (2 * v[i], 2 * abs(v[i])), 1)
    if op == "c04.rowcol":
        (r, k, A) = c.mat(); v = c.vec(); w = c.vec()
        if len(v) != k or len(w) != r:
            return ERR
        return V([("int", 1)] * 4, 0)
    if op == "c04.laws":
        (r, k, A), (r2, k2, B) = c.mat(), c.mat()
        if k != r2:
            return ERR
        return V([("int", 1)] * 4, 0)
    return None



# --------------------------------------------------------------------------------------------------
# object histories (one Vector / Matrix object, a sequence of member calls): exact simulation with a
# running bound `err` on the absolute rounding error of the entries held by the C++ object
# --------------------------------------------------------------------------------------------------

def fsqrt(q):
    """exact square root of a Fraction that is a perfect square, else None"""
    if q < 0:
        return None
    n, d = q.numerator, q.denominator
    sn, sd = math.isqrt(n), math.isqrt(d)
    return Fraction(sn, sd) if sn * sn == n and sd * sd == d else None


def sqrt_up(q):
    """a rational upper bound of sqrt(q), tight to 1e-12 relative for every magnitude (for tolerances only)"""
    if q <= 0:
        return Fraction(0)
    e = (q.numerator.bit_length() - q.denominator.bit_length()) // 2
    scaled = q / Fraction(4) ** e
    return Fraction(math.sqrt(float(scaled)) * (1 + 1e-12)) * Fraction(2) ** e


def exact_dyadic(xs):
    """multiples of 2^-16 below 2^16: sums, differences and the <= 4x4 cofactor expansions of such numbers are exact"""
    return all(abs(x) < 65536 and (x * 65536).denominator == 1 for x in xs)


def fsqrt_hp(q):
    """sqrt(q) as a Fraction: exact for perfect squares, else correct to 2^-300 relative (oracle only; the Lean model
    answers `undef` for irrational norms)"""
    r = fsqrt(q)
    if r is not None or q <= 0:
        return r
    K = 320 + abs(q.numerator.bit_length() - q.denominator.bit_length())
    return Fraction(math.isqrt(q.numerator * q.denominator * 4 ** K), q.denominator * 2 ** K)


class VSim:
    """state of a Vector history: entries (exact) and the error bound of the C++ object's entries"""
    def __init__(self, v, hp=False):
        self.v = [Fraction(x) for x in v]; self.err = Fraction(0); self.hp = hp; self.irrational = False

    def mx(self):
        return max([abs(x) for x in self.v], default=Fraction(0))

    def normsq(self):
        return sum((x * x for x in self.v), Z)

    def norm_tol(self):
        """(exact norm^2, bound on |Norm() - norm|)"""
        n = len(self.v); S = self.normsq()
        return S, sqrt_up(Fraction(n)) * self.err + (n + 3) * EPS * sqrt_up(S)

    def step(self, op):
        """op: tuple as generated; returns list of items ('int',v) | ('val',exact,tol) | ('sq',S,tolnorm) or 'err'/'undef'"""
        k = op[0]; n = len(self.v)
        if k == "N":
            S, t = self.norm_tol(); return [("sq", S, t)]
        if k == "D":
            S = self.normsq()
            return [("val", S, 2 * n * (self.mx() + self.err) * self.err + (n + 3) * EPS * S)]
        if k == "S":
            return [("int", n)]
        if k in ("M", "U"):
            S, tn = self.norm_tol(); r = fsqrt(S)
            if r is None and self.hp and S > 0:
                r = fsqrt_hp(S); self.irrational = True
            if r is None or r == 0:
                return "undef"
            w = [x / r for x in self.v]
            e = self.err / r + self.mx() * tn / (r * r) * 2 + 2 * EPS * (self.mx() / r)
            if k == "M":
                return [("val", x, e) for x in w]
            self.v = w; self.err = e; return []
        if k == "R":
            return "err" if op[1] >= n else [("val", self.v[op[1]], self.err)]
        if k == "W":
            if op[1] >= n:
                return "err"
            self.v[op[1]] = Fraction(op[2]); return []
        if k in ("+", "-", "C"):
            u = [Fraction(x) for x in op[1]]
            if len(u) != n:
                return "err"
            sg = 1 if k == "+" else -1
            w = [x + sg * y for x, y in zip(self.v, u)]
            mw = max([abs(x) for x in w], default=Z)
            e = self.err * (1 + 2 * EPS) + EPS * mw
            if self.err == 0 and exact_dyadic(w) and exact_dyadic(u):
                e = Fraction(0)      # the additions are exact in double
            if k == "C":
                c = VSim([]); c.v = w; c.err = e
                S1, t1 = c.norm_tol(); S0, t0 = self.norm_tol()
                return [("sq", S1, t1), ("sq", S0, t0)]
            self.v = w; self.err = e; return []
        if k == "=":
            self.v = [Fraction(x) for x in op[1]]; self.err = Fraction(0); return []
        if k == "Z":
            self.v = self.v[:op[1]] + [Z] * (op[1] - n); return []
        if k == "A":
            self.v = [Fraction(op[2])] * op[1]; self.err = Fraction(0); return []
        raise ValueError(k)


class MSim:
    def __init__(self, rows, c):
        self.a = [[Fraction(x) for x in r] for r in rows]; self.c = c; self.err = Fraction(0)

    @property
    def r(self):
        return len(self.a)

    def mx(self):
        return max([abs(x) for row in self.a for x in row], default=Z)

    def norm_tol(self):
        n = self.r * self.c; S = sum((x * x for row in self.a for x in row), Z)
        return S, sqrt_up(Fraction(max(n, 1))) * self.err + (n + 3) * EPS * sqrt_up(S)

    def step(self, op):
        k = op[0]; r, c = self.r, self.c
        if k == "N":
            S, t = self.norm_tol(); return [("sq", S, t)]
        if k == "T":
            if r != c:
                return "err"
            return [("val", sum((self.a[i][i] for i in range(r)), Z), r * self.err + (r + 3) * EPS * sum((abs(self.a[i][i]) for i in range(r)), Z))]
        if k == "D":
            if r != c:
                return "err"
            if r == 0:
                return [("val", Z, 0)]
            M = self.mx() + self.err
            bound = math.factorial(r) * (r * M ** (r - 1) * self.err + (r * r + 4 * r) * 2 * EPS * M ** r)
            return [("val", fdet_exact(self.a), bound)]
        if k == "P":
            rr, cc = (c, r) if c != 0 else (0, 0)
            return [("int", rr), ("int", cc)] + [("val", self.a[j][i], self.err) for i in range(rr) for j in range(cc)]
        if k == "Y":
            sym = r == c and all(self.a[i][j] == self.a[j][i] for i in range(r) for j in range(r))
            return [("bool", int(sym), self.err == 0)]
        if k == "S":
            return [("int", r), ("int", c)]
        if k in ("AY", "DG", "I", "O"):
            sq = r == c
            if k == "AY":
                b = sq and all(self.a[i][j] == -self.a[j][i] for i in range(r) for j in range(r))
            elif k == "DG":
                b = sq and all(self.a[i][j] == 0 for i in range(r) for j in range(r) if i != j)
            else:
                d = fdet_exact(self.a) if sq and r > 0 else Z
                b = sq and d != 0
                if k == "O" and b:
                    inv = finv_exact(self.a)
                    b = all(inv[i][j] == self.a[j][i] for i in range(r) for j in range(r))
            # decided on exact entries only; Orthogonal compares a floating-point inverse exactly: only
            # checked when the inverse is exact in double too (entries 0, +-1: signed permutations) or the answer is
            # false for the robust reason "not invertible"
            sure = self.err == 0 and r <= 4 and all(abs(x) <= 256 and (x * 8).denominator == 1 for row in self.a for x in row)
            if k == "O" and sure and sq and fdet_exact(self.a) != 0 if r > 0 else False:
                sure = all(x in (0, 1, -1) for row in self.a for x in row) or not near_orthogonal(self.a)
            return [("bool", int(b), sure)]
        if k == "RR":
            return "err" if op[1] >= r else [("val", x, self.err) for x in self.a[op[1]]]
        if k == "RC":
            return "err" if op[1] >= c else [("val", row[op[1]], self.err) for row in self.a]
        if k == "SM":
            if op[1] >= r or op[2] >= c:
                return "err"
            rows = [[x for j, x in enumerate(row) if j != op[2]] for i, row in enumerate(self.a) if i != op[1]]
            return [("int", r - 1), ("int", c - 1)] + [("val", x, self.err) for row in rows for x in row]
        if k == "R":
            if op[1] >= r:
                return "err"
            return "undef" if op[2] >= c else [("val", self.a[op[1]][op[2]], self.err)]
        if k == "W":
            if op[1] >= r:
                return "err"
            if op[2] >= c:
                return "undef"
            self.a[op[1]][op[2]] = Fraction(op[3]); return []
        if k in ("+", "-", "C"):
            B = op[1]
            if len(B) != r or B.ncols != c:
                return "err"
            sg = 1 if k == "+" else -1
            w = [[x + sg * Fraction(y) for x, y in zip(ra, rb)] for ra, rb in zip(self.a, B)]
            mw = max([abs(x) for row in w for x in row], default=Z)
            e = self.err * (1 + 2 * EPS) + EPS * mw
            if self.err == 0 and exact_dyadic([x for row in w for x in row]) and exact_dyadic([Fraction(y) for rb in B for y in rb]):
                e = Fraction(0)      # the additions are exact in double
            if k == "C":
                cpy = MSim(w, c); cpy.err = e
                S1, t1 = cpy.norm_tol(); S0, t0 = self.norm_tol()
                return [("sq", S1, t1), ("sq", S0, t0)]
            self.a = w; self.err = e; return []
        if k == "=":
            self.a = [[Fraction(x) for x in row] for row in op[1]]; self.c = op[1].ncols; self.err = Fraction(0); return []
        if k == "Z":
            nr, nc = op[1], op[2]
            rows = self.a[:nr] + [[] for _ in range(nr - r)]
            self.a = [row[:nc] + [Z] * (nc - len(row)) for row in rows]; self.c = nc; return []
        if k == "A":
            self.a = [[Fraction(op[3])] * op[2] for _ in range(op[1])]; self.c = op[2]; self.err = Fraction(0); return []
        if k == "DR":
            if op[1] >= r:
                return "err"
            del self.a[op[1]]; return []
        if k == "DC":
            if op[1] >= c:
                return "err"
            for row in self.a:
                del row[op[1]]
            self.c -= 1; return []
        raise ValueError(k)


def finv_exact(a):
    n = len(a)
    A = [list(r) + [Fraction(int(i == j)) for j in range(n)] for i, r in enumerate(a)]
    for i in range(n):
        p = next(r for r in range(i, n) if A[r][i] != 0)
        A[i], A[p] = A[p], A[i]
        piv = A[i][i]; A[i] = [x / piv for x in A[i]]
        for r in range(n):
            if r != i and A[r][i] != 0:
                f = A[r][i]; A[r] = [x - f * y for x, y in zip(A[r], A[i])]
    return [r[n:] for r in A]


def near_orthogonal(a):
    """A^T A within 1e-6 of the identity (then the exact comparison of a rounded inverse is not predictable)"""
    n = len(a)
    return all(abs(sum(a[k][i] * a[k][j] for k in range(n)) - int(i == j)) < Fraction(1, 10 ** 6) for i in range(n) for j in range(n))


def fdet_exact(a):
    n = len(a)
    A = [list(r) for r in a]; d = Fraction(1)
    for i in range(n):
        p = next((r for r in range(i, n) if A[r][i] != 0), None)
        if p is None:
            return Z
        if p != i:
            A[i], A[p] = A[p], A[i]; d = -d
        d *= A[i][i]
        for r in range(i + 1, n):
            f = A[r][i] / A[i][i]
            A[r] = [x - f * y for x, y in zip(A[r], A[i])]
    return d


PYTHAG = [[3.0, 4.0], [1.0, 2.0, 2.0], [2.0, 3.0, 6.0], [1.0, 4.0, 8.0], [1.0, 1.0, 1.0, 1.0], [2.0, 4.0, 5.0, 6.0], [0.0, 5.0],
          [6.0, 8.0], [4.0, 4.0, 7.0], [1.0, 2.0, 2.0, 4.0, 0.0], [5.0]]


def hval(rng):
    return 0.0 if rng.random() < 0.1 else dyadic(rng, -8, 8, 3)


def op_tok(op):
    out = [op[0]]
    for x in op[1:]:
        if isinstance(x, Rows):
            out.append(mat_tok(x))
        elif isinstance(x, list):
            out.append(lst(x))
        elif isinstance(x, float):
            out.append(hx(x))
        else:
            out.append(str(x))
    return " ".join(out)


def v_observer(rng, n):
    k = rng.choice(["N", "N", "D", "S", "R", "M", "C"])
    if k == "R":
        return ("R", rng.randrange(n))
    if k == "C":
        return ("C", [hval(rng) for _ in range(n)])
    return (k,)


def v_mutator(rng, sim):
    n = len(sim.v); c = rng.random()
    if c < 0.45:
        k = rng.choice(["+", "-", "-"])
        cur = [float(x) for x in sim.v]
        if rng.random() < 0.5 and all(Fraction(x) == y for x, y in zip(cur, sim.v)):
            tgt = ([float(x) for x in rng.choice(PYTHAG)] + [0.0] * n)[:n]     # move to a vector with a rational norm
            u = [a - b for a, b in zip(cur, tgt)] if k == "-" else [b - a for a, b in zip(cur, tgt)]
            return (k, u)
        return (k, [hval(rng) for _ in range(n)])
    if c < 0.60:
        return ("W", rng.randrange(n), hval(rng))
    if c < 0.68:
        return ("Z", rng.randint(1, 6))
    if c < 0.76:
        return ("A", rng.randint(1, 6), hval(rng))
    if c < 0.90:
        return ("=", rng.choice(PYTHAG)[:] if rng.random() < 0.6 else [hval(rng) for _ in range(rng.randint(1, 6))])
    return ("U",)


def gen_hist(rng, nops, sim, observer, mutator, okstate):
    """blocks (observer, mutator, same observer) on one object; every op is validated on the exact simulation"""
    import copy
    ops = []
    def push(op):
        nonlocal sim
        trial = copy.deepcopy(sim)
        res = trial.step(op)
        if res in ("undef", "err") or not okstate(trial):
            return False
        sim = trial; ops.append(op); return True
    guard = 0
    while len(ops) < nops and guard < 400:
        guard += 1
        o = observer(rng, sim)
        if not push(o):
            continue
        for _ in range(20):
            if push(mutator(rng, sim)):
                break
        o2 = o if rng.random() < 0.75 else observer(rng, sim)
        if ops and ops[-1][0] == "Z" and hasattr(sim, "c"):
            # after Matrix::Resize read EVERY entry of the new shape (the appended rows in particular)
            for extra in (("P",), ("N",), ("R", sim.r - 1, sim.c - 1), ("RR", sim.r - 1)):
                if rng.random() < 0.7:
                    push(extra)
        if not push(o2):
            push(observer(rng, sim))
    return ops


def gen_vhist(rng, nops):
    n = rng.randint(1, 6)
    v0 = rng.choice(PYTHAG)[:] if rng.random() < 0.4 else [hval(rng) for _ in range(n)]
    ok = lambda t: t.err <= Fraction(1, 2 ** 30) and len(t.v) >= 1 and max(abs(x) for x in t.v) <= 2 ** 15
    ops = gen_hist(rng, nops, VSim(v0), lambda r, sm: v_observer(r, len(sm.v)), v_mutator, ok)
    return "c04.vhist %s %d %s" % (lst(v0), len(ops), " ".join(op_tok(o) for o in ops))


def hmat(rng, rr, cc):
    return Rows([[hval(rng) for _ in range(cc)] for _ in range(rr)], cc)


def sperm(rng, n):
    p = list(range(n)); rng.shuffle(p)
    return Rows([[float(rng.choice([-1, 1])) if j == p[i] else 0.0 for j in range(n)] for i in range(n)], n)


def m_observer(rng, sim):
    r, c = sim.r, sim.c
    k = rng.choice(["N", "T", "D", "P", "P", "Y", "AY", "DG", "S", "R", "RR", "RC", "RC", "O", "I", "SM", "C"])
    if k in ("T", "D", "O") and r != c:
        k = rng.choice(["P", "RC", "N"])
    if k == "R":
        return (k, rng.randrange(r), rng.randrange(c))
    if k == "RR":
        return (k, rng.randrange(r))
    if k == "RC":
        return (k, rng.randrange(c))
    if k == "SM":
        return (k, rng.randrange(r), rng.randrange(c))
    if k == "C":
        return (k, hmat(rng, r, c))
    return (k,)


def m_mutator(rng, sim):
    r, c = sim.r, sim.c; q = rng.random()
    if q < 0.30:
        return (rng.choice(["+", "-"]), hmat(rng, r, c))
    if q < 0.62:
        return ("W", rng.randrange(r), rng.randrange(c), rng.choice([0.0, 1.0, -1.0, hval(rng), hval(rng)]))
    if q < 0.70:
        v = rng.randrange(6)     # rows up / cols same, rows down (a later pass grows them again), cols change / rows same, both
        if v == 0:
            return ("Z", r + rng.randint(1, 2), c)
        if v == 1:
            return ("Z", max(1, r - rng.randint(1, 2)), c)
        if v == 2:
            return ("Z", r, max(1, c + rng.choice([-1, 1, 2])))
        if v == 3:
            return ("Z", r + 1, c + 1)
        nr = rng.randint(1, 4); return ("Z", nr, nr if rng.random() < 0.5 else rng.randint(1, 4))
    if q < 0.76:
        nr = rng.randint(1, 4); return ("A", nr, nr if rng.random() < 0.5 else rng.randint(1, 4), hval(rng))
    if q < 0.88:
        nr = rng.randint(1, 4)
        if rng.random() < 0.4:
            return ("=", sperm(rng, nr))
        return ("=", hmat(rng, nr, nr if rng.random() < 0.6 else rng.randint(1, 4)))
    if q < 0.94:
        return ("DR", rng.randrange(r)) if r >= 2 else ("W", 0, 0, hval(rng))
    return ("DC", rng.randrange(c)) if c >= 2 else ("W", 0, 0, hval(rng))


def gen_mhist(rng, nops):
    r, c = rng.randint(1, 4), rng.randint(1, 4)
    if rng.random() < 0.6:
        c = r
    A0 = sperm(rng, r) if (r == c and rng.random() < 0.25) else hmat(rng, r, c)
    ok = lambda t: 1 <= t.r <= 6 and 1 <= t.c <= 6 and t.mx() <= 2 ** 12
    ops = gen_hist(rng, nops, MSim(A0, c), m_observer, m_mutator, ok)
    return "c04.mhist %s %d %s" % (mat_tok(A0), len(ops), " ".join(op_tok(o) for o in ops))


def triple_corpus():
    """deterministic: (observer, mutator, same observer) for every observer x every mutator, on one object"""
    import copy
    R = []
    # ---- Vector: v = (3,4,12), norm 13; every mutator leaves a vector with a rational norm (for Normalized)
    v0 = [3.0, 4.0, 12.0]
    vobs = [("N",), ("D",), ("S",), ("R", 0), ("R", 1), ("M",), ("C", [1.0, 0.0, 0.0])]
    vmut = [[("+", [-2.0, -2.0, -10.0])], [("-", [2.0, 2.0, 10.0])], [("W", 2, 0.0)], [("W", 0, 5.0), ("W", 1, 0.0)], [("Z", 2)],
            [("Z", 4)], [("A", 4, 1.0)], [("=", [1.0, 2.0, 2.0])], [("U",)]]
    for o in vobs:
        for m in vmut:
            ops = [o] + m + [o]
            if o[0] == "C":
                ops = [o] + m + [("N",), ("C", [1.0] + [0.0] * 5)]
            sim = VSim(v0); good = True; fixed = []
            for op in ops:
                if op[0] in ("C",):
                    op = ("C", op[1][:len(sim.v)])
                if op[0] == "R" and op[1] >= len(sim.v):
                    op = ("R", 0)
                if sim.step(op) in ("err", "undef"):
                    good = False; break
                fixed.append(op)
            if good:
                R.append("c04.vhist %s %d %s" % (lst(v0), len(fixed), " ".join(op_tok(x) for x in fixed)))
    # ---- Matrix: three 3x3 objects (symmetric invertible; orthogonal; one entry away from orthogonal)
    mk = lambda rows: Rows([[float(x) for x in r] for r in rows], len(rows[0]))
    inits = [mk([[2, 1, 0], [1, 3, 1], [0, 1, 4]]), mk([[0, 1, 0], [-1, 0, 0], [0, 0, 1]]), mk([[0, 5, 0], [-1, 0, 0], [0, 0, 1]])]
    B = mk([[1, 0, 2], [0, 1, 0], [3, 0, 1]])
    mobs = [("N",), ("T",), ("D",), ("P",), ("Y",), ("AY",), ("DG",), ("S",), ("R", 0, 1), ("RR", 0), ("RC", 1), ("RC", 0), ("O",),
            ("I",), ("SM", 1, 0), ("C", B), ("RL",), ("RRL",)]
    mmut = [[("+", B)], [("-", B)], [("W", 0, 1, 1.0)], [("W", 0, 1, 7.0)], [("W", 1, 0, 1.0), ("W", 0, 1, 1.0)], [("W", 2, 2, 0.0)],
            [("Z", 2, 2)], [("Z", 3, 4), ("DC", 3)], [("Z", 4, 3)], [("Z", 5, 3)], [("Z", 1, 3), ("Z", 3, 3)], [("Z", 2, 3), ("Z", 4, 3)],
            [("Z", 3, 2)], [("Z", 3, 4)], [("Z", 4, 4)], [("Z", 2, 3)], [("Z", 1, 1), ("Z", 3, 1), ("Z", 3, 3)], [("A", 3, 3, 2.0)], [("=", B)], [("=", mk([[0, 0, 1], [1, 0, 0], [0, 1, 0]]))],
            [("DR", 0), ("DC", 0)], [("DR", 2)], [("DC", 1)]]
    for A0 in inits:
        for o in mobs:
            for m in mmut:
                sim = MSim(A0, A0.ncols); good = True; fixed = []
                for op in [o] + m + [o]:
                    if op[0] == "RL":        # [][] read of the last entry of the last row
                        op = ("R", sim.r - 1, sim.c - 1)
                    if op[0] == "RRL":       # Return_Row of the last row
                        op = ("RR", sim.r - 1)
                    if op[0] == "C":
                        if (sim.r, sim.c) != (3, 3):
                            op = ("C", Rows([[1.0] * sim.c for _ in range(sim.r)], sim.c))
                    if op[0] in ("R", "SM") and (op[1] >= sim.r or op[2] >= sim.c):
                        op = (op[0], 0, 0)
                    if op[0] == "RR" and op[1] >= sim.r or op[0] == "RC" and op[1] >= sim.c:
                        op = (op[0], 0)
                    if op[0] == "SM" and (sim.r < 2 or sim.c < 2):
                        op = ("P",)
                    if sim.step(op) in ("err", "undef"):
                        good = False; break
                    fixed.append(op)
                if good:
                    R.append("c04.mhist %s %d %s" % (mat_tok(A0), len(fixed), " ".join(op_tok(x) for x in fixed)))
    return R


def parse_hist(op, a):
    """request tokens -> (simulator, list of ops)"""
    c = Cur(a)
    rawf = lambda: fl(c.tok())
    def rvec():
        n = c.int(); return [rawf() for _ in range(n)]
    def rmat_():
        r, k = c.int(), c.int(); return Rows([[rawf() for _ in range(k)] for _ in range(r)], k)
    ops = []
    if op == "c04.vhist":
        sim = VSim(rvec(), hp=True)
        for _ in range(c.int()):
            k = c.tok()
            if k in ("R", "Z"):
                ops.append((k, c.int()))
            elif k in ("W", "A"):
                ops.append((k, c.int(), rawf()))
            elif k in ("+", "-", "=", "C"):
                ops.append((k, rvec()))
            else:
                ops.append((k,))
    else:
        A = rmat_(); sim = MSim(A, A.ncols)
        for _ in range(c.int()):
            k = c.tok()
            if k in ("R", "Z"):
                ops.append((k, c.int(), c.int()))
            elif k in ("W", "A"):
                ops.append((k, c.int(), c.int(), rawf()))
            elif k in ("DR", "DC", "RR", "RC"):
                ops.append((k, c.int()))
            elif k == "SM":
                ops.append((k, c.int(), c.int()))
            elif k in ("+", "-", "=", "C"):
                ops.append((k, rmat_()))
            else:
                ops.append((k,))
    return sim, ops


def hist_ref(op, a):
    """('ok', items, opnames) | ('err',) | ('undef',)"""
    sim, ops = parse_hist(op, a)
    items, names = [], []
    for o in ops:
        res = sim.step(o)
        if res == "err":
            return ERR
        if res == "undef":
            return UNDEF
        items += res; names += [o[0]] * len(res)
    return ("hist", items, names, getattr(sim, "irrational", False))


OBS_NAME = {"N": "Norm", "D": "Dot/Determinant", "S": "Size/shape", "R": "operator[] read", "M": "Normalized", "T": "Trace",
            "P": "Transpose", "Y": "Symmetric", "AY": "Antisymmetric", "DG": "Diagonal", "I": "Invertible", "O": "Orthogonal",
            "RR": "Return_Row", "RC": "Return_Column", "SM": "Sub_Matrix", "C": "Norm of a mutated copy / of the original"}


def check_hist(ref, ti, slack=4):
    """observer values of the implementation against the exact simulation"""
    items, names = ref[1], ref[2]
    if len(ti) != len(items):
        return "number of reported values: %d instead of %d" % (len(ti), len(items))
    for idx, (it, t, nm) in enumerate(zip(items, ti, names)):
        what = OBS_NAME.get(nm, nm)
        if it[0] == "int":
            if "x" in t or not t.lstrip("-").isdigit() or int(t) != it[1]:
                return "%s (value %d of the history) is %s, expected %d" % (what, idx, t, it[1])
        elif it[0] == "bool":
            if it[2] and t != str(it[1]):
                return "%s (value %d of the history) is %s, expected %d" % (what, idx, t, it[1])
        else:
            v = fl(t)
            if math.isnan(v) or math.isinf(v):
                return "%s (value %d of the history) is %r" % (what, idx, v)
            if it[0] == "sq":
                S, tn = it[1], it[2] * slack
                rt = sqrt_up(S)
                if v < 0 or abs(Fraction(v) ** 2 - S) > 2 * rt * tn + tn * tn:
                    return "%s (value %d of the history) is %r, the current entries give %r" % (what, idx, v, math.sqrt(float(S)))
            else:
                if abs(Fraction(v) - it[1]) > slack * it[2]:
                    return "%s (value %d of the history) is %r, the current entries give %r" % (what, idx, v, float(it[1]))
    return None



# --------------------------------------------------------------------------------------------------
# zero-slack replay in IEEE doubles: every single operation is the correctly rounded one and every
# accumulation runs in the order of the C++ loop (acc = 0.0; acc += a*b), so the result is determined bit for bit
# --------------------------------------------------------------------------------------------------

def dcur_vec(c):
    n = c.int(); return [fl(c.tok()) for _ in range(n)]


def dcur_mat(c):
    r, k = c.int(), c.int(); return (r, k, [[fl(c.tok()) for _ in range(k)] for _ in range(r)])


def dsum(pairs):
    acc = 0.0
    for x, y in pairs:
        acc += x * y
    return acc


def dref(op, a):
    """list of doubles the implementation must return bit for bit (after the integer header), or None"""
    c = Cur(a)
    if op in ("c04.plus", "c04.minus"):
        c.tok(); (r, k, A), (r2, k2, B) = dcur_mat(c), dcur_mat(c)
        if (r, k) != (r2, k2):
            return None
        return [A[i][j] + B[i][j] if op == "c04.plus" else A[i][j] - B[i][j] for i in range(r) for j in range(k)]
    if op == "c04.mul":
        c.tok(); (r, k, A), (r2, k2, B) = dcur_mat(c), dcur_mat(c)
        if k != r2:
            return None
        return [dsum((A[i][t], B[t][j]) for t in range(k)) for i in range(r) for j in range(k2)]
    if op == "c04.smul":
        c.tok(); (r, k, A) = dcur_mat(c); s_ = fl(c.tok())
        return [s_ * x for row in A for x in row]
    if op == "c04.sdiv":
        c.tok(); (r, k, A) = dcur_mat(c); s_ = fl(c.tok())
        return None if s_ == 0 else [x / s_ for row in A for x in row]
    if op == "c04.matvec":
        c.tok(); (r, k, A) = dcur_mat(c); v = dcur_vec(c)
        return None if len(v) != k else [dsum((A[i][j], v[j]) for j in range(k)) for i in range(r)]
    if op == "c04.vecmat":
        v = dcur_vec(c); (r, k, A) = dcur_mat(c)
        return None if len(v) != r else [dsum((v[j], A[j][i]) for j in range(r)) for i in range(k)]
    if op == "c04.trace":
        (r, k, A) = dcur_mat(c)
        if r != k:
            return None
        acc = 0.0
        for i in range(r):
            acc += A[i][i]
        return [acc]
    if op == "c04.outer":
        u, v = dcur_vec(c), dcur_vec(c)
        return [x * y for x in u for y in v]
    if op == "c04.dot":
        c.tok(); u, v = dcur_vec(c), dcur_vec(c)
        return None if len(u) != len(v) else [dsum(zip(u, v))]
    if op == "c04.cross":
        u, v = dcur_vec(c), dcur_vec(c)
        if len(u) != 3 or len(v) != 3:
            return None
        return [u[1] * v[2] - u[2] * v[1], u[2] * v[0] - u[0] * v[2], u[0] * v[1] - u[1] * v[0]]
    if op in ("c04.vadd", "c04.vsub"):
        c.tok(); u, v = dcur_vec(c), dcur_vec(c)
        return None if len(u) != len(v) else [x + y if op == "c04.vadd" else x - y for x, y in zip(u, v)]
    if op == "c04.vsmul":
        c.tok(); u = dcur_vec(c); s_ = fl(c.tok())
        return [x * s_ for x in u]
    if op == "c04.vsdiv":
        u = dcur_vec(c); s_ = fl(c.tok())
        return None if s_ == 0 else [x / s_ for x in u]
    if op in CHAIN_OPS:
        sg = c.tok()
        if op == "c04.mchain":
            (r, k, X) = dcur_mat(c); x0 = [x for row in X for x in row]; bs = []
            for _ in sg:
                (r2, k2, B) = dcur_mat(c)
                if (r2, k2) != (r, k):
                    return None
                bs.append([x for row in B for x in row])
        else:
            x0 = dcur_vec(c); bs = [dcur_vec(c) for _ in sg]
            if any(len(b) != len(x0) for b in bs):
                return None
        def run(n):
            val = list(x0)
            for ch, b in list(zip(sg, bs))[:n]:
                val = [v + y if ch == "+" else v - y for v, y in zip(val, b)]
            return val
        return ("multi", [run(len(sg)), run(1), run(1)])
    return None


def same_double(x, y):
    """bit-identical, except that the sign of a zero is not part of the value"""
    if math.isnan(x) or math.isnan(y):
        return math.isnan(x) and math.isnan(y)
    return x == y


def check_bitwise(op, a, ref, ti):
    """None when the replay does not apply or agrees; else a description"""
    d = dref(op, a)
    if d is None:
        return None
    items = ref[1]
    if len(ti) != len(items):
        return None      # shape mismatch is reported by check_values
    want = []
    if isinstance(d, tuple):
        for part in d[1]:
            want += part
    else:
        want = d
    got = [fl(t) for t, it in zip(ti, items) if it[0] != "int"]
    if len(got) != len(want):
        return None
    for idx, (g, w) in enumerate(zip(got, want)):
        if not same_double(g, w):
            return "entry %d is %s, the correctly rounded / sequentially accumulated value is %s" % (idx, g.hex(), w.hex())
    return None


LAW_NAMES = ["transpose(A*B) == transpose(B)*transpose(A)", "A*I == A", "I*A == A", "transpose(transpose(A)) == A"]

CHAIN_OPS = ("c04.mchain", "c04.vchain")
LAYOUT_FROM_REF = CHAIN_OPS + ("c04.alias", "c04.moves", "c04.vmoves", "c04.fenv")
INT_HEADER = {"c04.plus": 2, "c04.minus": 2, "c04.mul": 2, "c04.smul": 2, "c04.sdiv": 2, "c04.transpose": 2,
              "c04.subm": 2, "c04.delrow": 2, "c04.delcol": 2, "c04.identity": 2, "c04.diag": 2, "c04.const": 2,
              "c04.ctor": 2, "c04.block": 2, "c04.blockr": 2, "c04.outer": 2, "c04.matvec": 1, "c04.vecmat": 1, "c04.retrow": 1,
              "c04.retcol": 1, "c04.cross": 1, "c04.vadd": 1, "c04.vsub": 1, "c04.vsmul": 1, "c04.vsdiv": 1}
SPELLED = {"c04.plus", "c04.minus", "c04.mul", "c04.smul", "c04.sdiv", "c04.matvec", "c04.dot", "c04.vadd",
           "c04.vsub", "c04.vsmul"}
SP_NAME = {("c04.plus", "m"): "Plus", ("c04.plus", "o"): "operator+", ("c04.plus", "a"): "operator+=",
           ("c04.minus", "m"): "Minus", ("c04.minus", "o"): "operator-", ("c04.minus", "a"): "operator-=",
           ("c04.mul", "m"): "Product(Matrix)", ("c04.mul", "o"): "operator*(Matrix)"}


def inputs_tiny(a):
    """some non-zero numeric input (or a product of two inputs) can fall into the subnormal range"""
    for t in a:
        if "x" in t or "X" in t:
            v = abs(float.fromhex(t))
            if 0 < v < 1e-150:
                return True
    return False


def inputs_exact(a):
    """all numeric inputs are dyadics k/16 with |x| <= 64: +,-,* on them (sums of <= 64 terms) are exact"""
    for t in a:
        if "x" in t or "X" in t:
            v = Fraction(float.fromhex(t))
            if abs(v) > 64 or (v * 16).denominator != 1:
                return False
    return True


TINY = Fraction(1, 2 ** 1074)       # spacing of the subnormal doubles


def check_values(op, ref, ti, exact, tiny=False):
    """implementation tokens against the reference; returns None or a description.  tiny: some operand lies in the
    subnormal range, where one rounding costs up to half a subnormal spacing instead of a relative 2^-53"""
    _, items, K = ref
    if len(ti) != len(items):
        return "shape of the result: %d values instead of %d" % (len(ti), len(items))
    if exact and op not in ("c04.sdiv", "c04.vsdiv"):
        K = 0
    for idx, (it, t) in enumerate(zip(items, ti)):
        if it[0] == "int":
            if "x" in t or t in ("nan", "inf", "-inf") or int(t) != it[1]:
                return "integer %d of the result is %s, expected %d" % (idx, t, it[1])
        else:
            v = fl(t)
            if not close(v, it[0], it[1], 2 * K, atol=(2 * K + 2) * TINY if tiny else 0):
                return "value %d is %r, definition gives %r" % (idx, v, float(it[0]))
    return None


def root_str(s):
    """decimal rendering of sqrt(s) for messages (s may lie outside the double range)"""
    if s == 0:
        return "0"
    e = 0
    while s >= Fraction(10) ** 200:
        s /= Fraction(10) ** 200; e += 100
    while s < Fraction(1, 10 ** 200):
        s *= Fraction(10) ** 200; e -= 100
    return "%.17g x 10^%d" % (math.sqrt(float(s)), e) if e else "%.17g" % math.sqrt(float(s))


def check_sq(ref, ti, mult=1):
    """|Norm() - sqrt(S)| <= (n+2) eps sqrt(S)  (+ half a subnormal spacing), decided exactly on the squares"""
    _, s, n = ref
    if len(ti) != 1:
        return "one value expected"
    v = fl(ti[0])
    if math.isnan(v) or math.isinf(v) or v < 0:
        return "norm is %r, the root of the sum of squares is %s" % (v, root_str(s))
    t = mult * (n + 2) * EPS
    lo, hi = Fraction(v) - TINY, Fraction(v) + TINY
    # sqrt(S)(1-t) <= hi  and  lo <= sqrt(S)(1+t)
    if hi * hi < s * (1 - t) ** 2 or (lo > 0 and lo * lo > s * (1 + t) ** 2):
        return "norm is %r, the root of the sum of squares is %s (tolerance (n+2) eps)" % (v, root_str(s))
    return None


def model_items(op, tm):
    """model answer tokens -> same item layout as pyref (ints for the header, Fractions after)"""
    h = INT_HEADER.get(op, 0)
    if op in LAYOUT_FROM_REF:
        return None
    if op in ("c04.preds", "c04.veq", "c04.meq", "c04.laws", "c04.rowcol", "c04.crossdot"):
        return [("int", int(t)) for t in tm]
    return [("int", int(t)) for t in tm[:h]] + [(fr(t), None) for t in tm[h:]]


def clause_of(op, a):
    sp = SP_NAME.get((op, a[0]), "") if op in SPELLED else ""
    return op[4:] + (" [" + sp + "]" if sp else (" [spelling " + a[0] + "]" if op in SPELLED else ""))


def compare(rq, impl, model, ctx):
    op = rq.split(" ", 1)[0]
    a = rq.split()[1:]
    bump(ctx, op)
    ref = pyref(op, a)
    if ref is None:
        return [fail("corr", "request not understood by the reference", op)]
    fs, both = std_outcome(rq, impl, model, clause_of(op, a) + ": ")
    out = []
    ti = toks(impl)
    # ---- class D bookkeeping ----
    if op in SPELLED:
        ctx["spell"].setdefault((op, " ".join(a[1:])), {})[a[0]] = (impl, rq)
    # ---- property oracle on the implementation's own output ----
    po = oracle(op, a, impl, ref)
    # ---- model against reference and implementation ----
    tm_ = tag(model)
    if tm_ in ("ok", "err"):
        ctx["nontrivial"].add((op, a[0] if op in SPELLED else "", shape_key(op, a), tm_))
        bump(ctx, "outcome:" + tm_)
    if ref[0] == "hist":
        ctx["nontrivial"].add((op, tuple(sorted(set(ref[2]))), len(ref[1]) // 4))
    if ref[0] == "hist" and ref[3] and tm_ == "undef":
        bump(ctx, "history-with-irrational-norm:oracle-only")     # the rational model has no square root for it
    elif (ref[0] == "err") != (tm_ == "err") or (ref[0] == "undef") != (tm_ == "undef"):
        out.append(fail("corr", clause_of(op, a) + ": model outcome %s, definition says %s" % (tm_, ref[0]), ""))
    elif tm_ == "ok":
        tm = toks(model)
        if ref[0] == "hist":
            want = [Fraction(it[1]) for it in ref[1]]
            if [fr(t) for t in tm] != want:
                out.append(fail("corr", clause_of(op, a) + ": model history differs from the exact simulation", ""))
        elif ref[0] == "sq":
            if fr(tm[0]) != ref[1]:
                out.append(fail("corr", clause_of(op, a) + ": model differs from the definition", ""))
        else:
            mi = model_items(op, tm)
            if mi is None:      # layout follows the reference (several results in one answer)
                mi = [("int", int(t)) if it[0] == "int" else (fr(t), None) for t, it in zip(tm, ref[1])] if len(tm) == len(ref[1]) else []
            if len(mi) != len(ref[1]) or any(x[0] != y[0] if y[0] != "int" else x != y for x, y in zip(mi, ref[1])):
                out.append(fail("corr", clause_of(op, a) + ": model differs from the definition", ""))
            elif both and not po:
                # class B: implementation against the model (same tolerance)
                exact = inputs_exact(a)
                d = check_values(op, ("ok", [(m[0], r[1]) if m[0] != "int" else m for m, r in zip(mi, ref[1])], ref[2]), ti, exact, inputs_tiny(a))
                if d:
                    out.append(fail("corr", clause_of(op, a) + ": implementation differs from the model", d))
    if po:
        # the outcome failures of std_outcome are the same finding: keep one record
        return [fail("prop", clause_of(op, a) + ": " + po[0], po[1])] + [f for f in out if f["kind"] == "corr" and "model" in f["clause"] and "definition" in f["clause"]]
    return fs + out


def oracle(op, a, impl, ref):
    """None, or (clause, detail): the property fails on this request for the implementation"""
    ti_ = tag(impl)
    if crashed(impl):
        return ("crash / sanitizer report / silent exit (" + ti_ + ")", impl[:200])
    if ref[0] == "undef":
        return None
    if ref[0] == "err":
        if ti_ != "err":
            return ("non-conformable or out-of-range request did not stop with a diagnostic", impl[:200])
        return None
    if ti_ == "err":
        return ("conformable request terminated the process", "")
    if ti_ != "ok":
        return None
    ti = toks(impl)
    if ref[0] == "hist":
        d = check_hist(ref, ti)
        return ("observer after a mutator does not agree with its definition (stale state)", d) if d else None
    if ref[0] == "sq":
        d = check_sq(ref, ti)
        return ("Norm is not the root of the sum of squares", d) if d else None
    if op == "c04.crossdot":
        names = ["Cross(u,v) == skew(u)*v", "Dot(p,q) == row(p)*column(q)"]
        bad = [names[i] for i, t in enumerate(ti) if t != "1"]
        if len(ti) != 2 or bad:
            return ("product does not coincide with the product of the corresponding matrices: " + "; ".join(bad), "")
        return None
    if op == "c04.rowcol":
        names = ["A*v == A*column(v)", "w*A == row(w)*A", "Outer(w,v) == column(w)*row(v)", "v.v == row(v)*column(v)"]
        bad = [names[i] for i, t in enumerate(ti) if t != "1"]
        if len(ti) != 4 or bad:
            return ("product does not coincide with the product of the row/column matrices: " + "; ".join(bad), "")
        return None
    if op == "c04.laws":
        bad = [LAW_NAMES[i] for i, t in enumerate(ti) if t != "1"]
        if len(ti) != 4 or bad:
            return ("algebraic law fails exactly: " + "; ".join(bad), "")
        return None
    d = check_values(op, ref, ti, inputs_exact(a), inputs_tiny(a))
    if d:
        if op in CHAIN_OPS:
            return ("chained compound assignment does not leave the sequential result in the object", d)
        if op in ("c04.moves", "c04.vmoves"):
            return ("an object constructed from an rvalue (swap / move / push_back / returned parameter) does not hold the value of its source", d)
        if op == "c04.fenv":
            return ("the caller's rounding mode is not left as it was found", d)
        return ("result differs from the definition", d)
    d = check_bitwise(op, a, ref, ti)
    if d:
        return ("result is not the correctly rounded value of the definition (sums accumulated in loop order)", d)
    return None


def oracle_only(rq, impl, ctx):
    op = rq.split(" ", 1)[0]
    a = rq.split()[1:]
    ref = pyref(op, a)
    if ref is None:
        return []
    if op in SPELLED:
        ctx.setdefault("spell", {}).setdefault((op, " ".join(a[1:])), {})[a[0]] = (impl, rq)
    po = oracle(op, a, impl, ref)
    return [fail("prop", clause_of(op, a) + ": " + po[0], po[1])] if po else []


def shape_key(op, a):
    """operand shapes of a request (for the coverage count)"""
    c = Cur(a)
    try:
        if op in SPELLED:
            c.tok()
        ks = []
        kinds = {"c04.plus": "MM", "c04.minus": "MM", "c04.mul": "MM", "c04.meq": "MM", "c04.laws": "MM",
                 "c04.smul": "M", "c04.sdiv": "M", "c04.matvec": "MV", "c04.vecmat": "VM", "c04.transpose": "M",
                 "c04.trace": "M", "c04.subm": "Mii", "c04.delrow": "Mi", "c04.delcol": "Mi", "c04.retrow": "Mi",
                 "c04.retcol": "Mi", "c04.preds": "M", "c04.mnorm": "M", "c04.mget": "Mii", "c04.outer": "VV",
                 "c04.dot": "VV", "c04.cross": "VV", "c04.vadd": "VV", "c04.vsub": "VV", "c04.veq": "VV",
                 "c04.vsmul": "V", "c04.vsdiv": "V", "c04.vnorm": "V", "c04.vget": "Vi", "c04.diag": "V"}.get(op)
        if kinds is None:
            return tuple(a[:2])
        for k in kinds:
            if k == "M":
                r, cc, _ = c.mat(); ks.append((r, cc))
            elif k == "V":
                ks.append(len(c.vec()))
            else:
                ks.append(min(u32(c.int()), 9))
        return tuple(ks)
    except Exception:
        return ("?",)


def finalize(ctx, exe):
    """class D: all spellings of one operation on the same operands are bit-identical"""
    out = []
    for (op, rest), d in ctx.get("spell", {}).items():
        vals = {sp: v[0] for sp, v in d.items()}
        if len(set(vals.values())) > 1 and not any(crashed(v) for v in vals.values()):
            sps = sorted(vals)
            names = ", ".join("%s -> %s" % (SP_NAME.get((op, s), s), vals[s][:60]) for s in sps)
            out.append(dict(fail("prop", op[4:] + ": spellings of the same operation are not bit-identical", names),
                            req=d[sps[-1]][1], impl=vals[sps[-1]]))
        ctx["nontrivial"].add(("spellings", op, len(vals)))
    return out
