"""C13 — named 1-D methods and nested multi-dimensional integrals agree with analysis."""
import math, os, random, sys
from fractions import Fraction
from common import *

try:
    import mpmath
    mpmath.mp.dps = 25
except ImportError:   # check.py re-executes under python3-vt, which carries mpmath
    mpmath = None

RULE = ("every method name x {1-D, 2-D, 3-D, spherical} x integrand class (non-symmetric polynomial terms, damped "
        "oscillation / rational / Gaussian products) x orientation of every limit pair x method_parameter (0, explicit), "
        "drawn from VERIF_SEED; a case is non-trivial when the model answers ok/err and is counted once per distinct "
        "(op, method, orientation pattern, parameter class, integrand class) key")
CORR_ONLY = ["accuracy of the Boost rules (trapezoidal, gauss<30>, gauss_kronrod<31>, tanh_sinh) and of the library's own "
             "Gauss-Legendre / adaptive Simpson on the smooth families: 1e-9 relative to the integral of |f| (Trapezoidal 1e-6), "
             "against exact rational integrals (polynomials, through the model's wrappers) and mpmath.quad (other families)",
             "Monte-Carlo front ends: value within 10% (statistical), arguments inside their own limit pair exactly",
             "spherical overload: norm / polar angle / azimuth of the vectors handed to the integrand are read off the vectors "
             "(C16 proves the Spherical_Coordinates algebra)"]
ASSUMPTIONS = ["the model's 1-D rule is the exact 17-point Newton-Cotes rule (exact to degree 17): the model value for a polynomial "
               "integrand is the exact iterated integral through the coded wrappers (validated by the driver self-test)",
               "'1e-9 relative' is judged relative to |I| (the exact integral) for Gauss-Legendre, Gauss-Kronrod, Tanh-Sinh, Gauss-Legendre_2 and "
               "Adaptive-Simpson, plus the rounding floor 256 * 2^-53 * (integral of |f| resp. sum of |terms|); '1e-6' of Trapezoidal is judged "
               "relative to the integral of |f|: relative to |I| it fails for damped oscillations with cancelling I (audit probe: 600 of 3000 "
               "runs, worst 3.8e-4) - an interpretation of 'relative', not a tolerance",
               "Trapezoidal, damped oscillations: the generated damping is capped at e^-2 over the interval; beyond damping*L ~ 3 Boost's 2048-panel "
               "limit misses 1e-6 even relative to the integral of |f| (audit: 46% of the cases at damping*L = 5, 100% at 50) - outside the generated range",
               "peaked families (rational, Gaussian): widths between L/64 and ~L are generated for all methods; sharper peaks only for Gauss-Kronrod with "
               "an explicit depth (see _gk_depth_needed)",
               "outside the quantifier, not generated: Vegas with method_parameter < ~30 (SIGFPE at 1 or negative), Gauss-Legendre_2 with a negative "
               "number of points (bad_alloc), Tanh-Sinh on integrands with e^-50 contrast (Boost exception)",
               "KNOWN DEFECT (known_findings.json): 'Adaptive-Simpson' accepts a panel at the first accidental zero of S2 - S; ~2e-4 of the family "
               "members miss 1e-9 relative (worst seen 1.2e-7); seen deterministically by c13.sweep and the three c13.asknown* replays",
               "Trapezoidal: Boost stops after 2048 panels, the leading Euler-Maclaurin term bounds the error by 0.89e-6 * integral |f| "
               "on the whole damped-oscillation domain (<= 2 periods, damping <= e^-2), so 1e-6 is met with ~10% margin"]
TRUSTED = ["mpmath.quad (30 digits) as reference for the non-polynomial families",
           "harness interposes std::random_device::_M_getval so that the Monte-Carlo front ends are reproducible"]

METHODS = ["Trapezoidal", "Gauss-Legendre", "Gauss-Kronrod", "Tanh-Sinh", "Gauss-Legendre_2", "Adaptive-Simpson"]
MC = ["Monte-Carlo", "Vegas", "Miser"]
BOGUS = ["gauss-legendre", "Simpson", "Gauss-Legendre_3", "MonteCarlo", "vegas", "x", "Trapezoidal_", "Gauss"]
REL = {"Trapezoidal": Fraction(1, 10 ** 6)}
REL_DEFAULT = Fraction(1, 10 ** 9)


def _param(rng, m, degree):
    """explicit method_parameter values that keep the method accurate on the integrand"""
    if m == "Gauss-Kronrod":
        return rng.choice([1, 2, 3, 5, 8])      # (31-point panels: polynomials and the mild families converge at depth <= 1)
    if m == "Gauss-Legendre_2":   # odd and even numbers of evaluation points
        return rng.choice([n for n in (3, 5, 7, 8, 9, 12, 13, 16, 25, 31, 40, 41, 64, 100) if 2 * n - 1 >= degree] or [41])
    return rng.choice([1, 7])      # ignored by the method


def _pair(rng, lo, hi, orient):
    a = round(rng.uniform(lo, hi - 0.5), 3)
    b = round(rng.uniform(a + 0.3, hi), 3)
    return (a, b) if orient == 0 else (b, a)


def _disjoint_pairs(rng, d, orient):
    """d limit pairs in pairwise disjoint ranges (so that a variable handed to the wrong argument is visible)"""
    bands = [(-4.0, -1.5), (-1.0, 1.2), (1.5, 4.0), (4.5, 7.0)]
    rng.shuffle(bands)
    return [_pair(rng, bands[i][0], bands[i][1], (orient >> i) & 1) for i in range(d)]


def _terms(ts):
    return "%d %s" % (len(ts), " ".join("%s %d %d %d" % (hx(c), i, j, k) for c, i, j, k in ts))


def _rterms(rng, dims, maxdeg, n=None):
    n = n or rng.randint(1, 3)
    ts = []
    for _ in range(n):
        e = [rng.randint(0, maxdeg[i]) if i < dims else 0 for i in range(3)]
        ts.append((float(rng.choice([-3, -2, -1, 1, 2, 3, 5])) / rng.choice([1, 2, 4]), e[0], e[1], e[2]))
    return ts


def _fam(rng, a, b):
    """(id, p0, p1, p2) adapted to the interval [a,b] (either order)"""
    lo, hi = min(a, b), max(a, b)
    L = hi - lo
    k = rng.randint(0, 2)
    if k == 0:   # exponentially damped oscillation, up to two periods over the interval
        lam = rng.uniform(0.1, 2.0) / L
        om = 2 * math.pi * rng.uniform(0.2, 2.0) / L
        return (0, lam, om, rng.uniform(0, 1.0) - om * lo)
    if k == 1:   # rational (Lorentzian, width comparable with the interval) plus offset
        return (1, rng.uniform(0.5, 6.0) / L ** 2, rng.uniform(lo, hi), rng.uniform(0.1, 1.0))
    return (2, rng.uniform(lo, hi), rng.uniform(0.25, 1.0) * L, rng.uniform(0.1, 1.0))


_GLCACHE = {}


def _gl_rule(n):
    """exact n-point Gauss-Legendre rule on [-1,1] (mpmath, Newton on the Legendre recurrence) - an
    independent reference used only to decide where an n-point rule CAN reach the method's accuracy"""
    if n in _GLCACHE:
        return _GLCACHE[n]
    mp = mpmath.mp
    xs, ws = [], []
    for i in range(n):
        z = mpmath.cos(mp.pi * (i + mpmath.mpf(3) / 4) / (n + mpmath.mpf(1) / 2))
        for _ in range(100):
            p1, p2 = mpmath.mpf(1), mpmath.mpf(0)
            for j in range(n):
                p1, p2 = ((2 * j + 1) * z * p1 - j * p2) / (j + 1), p1
            pp = n * (z * p1 - p2) / (z * z - 1)
            dz = p1 / pp
            z -= dz
            if abs(dz) < mpmath.mpf(10) ** -22:
                break
        xs.append(z); ws.append(2 / ((1 - z * z) * pp * pp))
    _GLCACHE[n] = (xs, ws)
    return xs, ws


def _gl_reaches(f, a, b, n, frac=Fraction(1, 10)):
    """does the exact n-point rule integrate family member f over [a,b] within frac * 1e-9 * |I| ?"""
    if mpmath is None:
        return False
    xs, ws = _gl_rule(n)
    g = _mpfam(f)
    lo, hi = min(a, b), max(a, b)
    mid, h = mpmath.mpf(lo + hi) / 2, mpmath.mpf(hi - lo) / 2
    q = h * sum(w * g(mid + h * x) for x, w in zip(xs, ws))
    I, A, S = _fam_ref(f, lo, hi)
    return abs(q - I) <= float(frac) * 1e-9 * abs(I)


def _famstr(f):
    return "%d %s %s %s" % (f[0], hx(f[1]), hx(f[2]), hx(f[3]))


def generate(tier, seed, ctx):
    rng = random.Random(seed * 7919 + 13)
    thorough = tier == "thorough"
    rep = 3 if thorough else 1
    R = ["c13.selftest"]
    meta = {}

    def add(rq, **kw):
        R.append(rq)
        meta[rq] = kw

    for m in METHODS:
        # ---- 1-D ------------------------------------------------------------------------------
        for t in range(8 * rep):
            orient = t % 2
            a, b = _pair(rng, -5, 5, orient)
            deg = rng.randint(0, 8 if m == "Trapezoidal" else 12)
            ts = [(c, i, 0, 0) for c, i, _, _ in _rterms(rng, 1, [deg, 0, 0], rng.randint(1, 4))] + [(1.0, deg, 0, 0)]
            p = 0 if t % 4 < 2 else _param(rng, m, deg)
            add("c13.int1 %s %d %s %s %s" % (m, p, hx(a), hx(b), _terms(ts)), cls="poly", orient=orient, pc=p != 0)
        for t in range(2):
            a = rng.uniform(-3, 3)
            add("c13.int1 %s 0 %s %s %s" % (m, hx(a), hx(a), _terms([(1.0, 2, 0, 0)])), cls="equal", orient=0, pc=False)
        for t in range(9 * rep):
            orient = t % 2
            a, b = _pair(rng, -5, 5, orient)
            f = _fam(rng, a, b)
            if t % 3 != f[0] and t < 6:
                f = _fam(rng, a, b)
            p = 0 if t % 3 else _param(rng, m, 59)
            if m == "Gauss-Legendre_2" and p:
                p = 40
            add("c13.fam1 %s %d %s %s %s" % (m, p, hx(a), hx(b), _famstr(f)), cls="fam%d" % f[0], orient=orient, pc=p != 0)
        # ---- 2-D ------------------------------------------------------------------------------
        for orient in range(4):
            for t in range(rep + 1):
                (x1, x2), (y1, y2) = _disjoint_pairs(rng, 2, orient)
                if t == 0:
                    ts = [(1.0, 1, 2, 0)] if orient % 2 == 0 else [(1.0, 1, 0, 0), (2.0, 0, 1, 0)]
                else:
                    ts = _rterms(rng, 2, [3, 4, 0]) + [(1.0, 1, 2, 0)]
                if m == "Trapezoidal":   # cost: keep the outer variable linear
                    ts = [(c, min(i, 1), j, k) for c, i, j, k in ts]
                deg = max(max(i, j) for _, i, j, _ in ts)
                p = 0 if (orient + t) % 2 == 0 else _param(rng, m, deg)
                add("c13.int2 %s %d %s %s %s %s 1 %s" % (m, p, hx(x1), hx(x2), hx(y1), hx(y2), _terms(ts)),
                    cls="poly", orient=orient, pc=p != 0)
        nf2 = {"Trapezoidal": 1, "Adaptive-Simpson": 1}.get(m, 3) * rep
        for t in range(nf2):
            orient = rng.randrange(4)
            (x1, x2), (y1, y2) = _disjoint_pairs(rng, 2, orient)
            g, h = _fam(rng, x1, x2), _fam(rng, y1, y2)
            add("c13.fam2 %s 0 %s %s %s %s 1 %s %s" % (m, hx(x1), hx(x2), hx(y1), hx(y2), _famstr(g), _famstr(h)),
                cls="fam", orient=orient, pc=False)
        # ---- 3-D ------------------------------------------------------------------------------
        cheap = m in ("Trapezoidal", "Adaptive-Simpson")
        for orient in range(8):     # the full orientation cross product of the three limit pairs
            if m == "Tanh-Sinh" and not thorough and orient not in (0, 7, [3, 5, 6][seed % 3]):
                continue                # (cost: ~0.6 s each; the eight patterns are met with the other five methods)
            (x1, x2), (y1, y2), (z1, z2) = _disjoint_pairs(rng, 3, orient)
            if orient % 2 == 0 or cheap:
                ts = [(1.0, 1, 0, 0), (2.0, 0, 1, 0), (3.0, 0, 0, 1)]
                if m == "Adaptive-Simpson":
                    ts = ts + [(1.0, 1, 2, 3)]      # Simpson is exact on cubics: still cheap
            else:
                ts = _rterms(rng, 3, [2, 3, 4]) + [(1.0, 1, 2, 3)]
            p = 0 if orient % 4 < 2 else _param(rng, m, 4)
            add("c13.int3 %s %d %s %s %s %s %s %s 1 %s" % (m, p, hx(x1), hx(x2), hx(y1), hx(y2), hx(z1), hx(z2), _terms(ts)),
                cls="poly", orient=orient, pc=p != 0)
        if not cheap:
            for t in range(rep):
                orient = rng.randrange(8)
                (x1, x2), (y1, y2), (z1, z2) = _disjoint_pairs(rng, 3, orient)
                g, h, k = _fam(rng, x1, x2), _fam(rng, y1, y2), _fam(rng, z1, z2)
                add("c13.fam3 %s 0 %s %s %s %s %s %s 1 %s %s %s" % (m, hx(x1), hx(x2), hx(y1), hx(y2), hx(z1), hx(z2),
                                                                 _famstr(g), _famstr(h), _famstr(k)), cls="fam", orient=orient, pc=False)
        # ---- spherical overload ---------------------------------------------------------------------
        for t in range(2 * rep if (thorough or m not in ("Trapezoidal", "Tanh-Sinh")) else 1):      # full sphere: 4 pi * radial integral
            orient = (t + seed) % 2
            r1, r2 = _pair(rng, 0.2, 3.0, orient)
            ts = [(float(rng.choice([1, 2, 3])), rng.randint(0, 1 if cheap else 4), 0, 0), (0.5, 0, 0, 0)]
            p = 0 if t < 1 else _param(rng, m, 6)
            add("c13.sph %s %d %s %s %s %s %s %s 1 %s" % (m, p, hx(r1), hx(r2), hx(-1.0), hx(1.0), hx(0.0), hx(2 * math.pi), _terms(ts)),
                cls="full", orient=orient, pc=p != 0)
        # angular sub-ranges, the integrand depends on all three spherical coordinates: the FULL orientation cross
        # product of (r, cos theta, phi) - reversing any subset of the pairs multiplies the result by the product of signs
        # (quick tier, the two expensive methods: the three patterns with exactly two reversed pairs)
        if thorough or m not in ("Trapezoidal", "Tanh-Sinh"):
            pats = list(range(8))
        else:
            # quick tier, the two expensive methods: ONE pattern with exactly two reversed pairs, rotating with the seed
            # (all eight patterns are met with the four cheaper methods in quick and with every method in thorough)
            pats = [[3, 5, 6][(seed + (m == "Tanh-Sinh")) % 3]]
        for orient in pats:
            r1, r2 = _pair(rng, 0.2, 3.0, orient & 1)
            c1, c2 = _pair(rng, -0.95, 0.95, (orient >> 1) & 1)
            f1, f2 = _pair(rng, -3.0, 3.0, (orient >> 2) & 1)
            md = [1, 1, 1] if cheap else [3, 3, 2]
            ts = _rterms(rng, 3, md, 2) + [(1.0, 1, 1, 1), (4.0, 0, 0, 0)]
            p = 0 if orient % 2 == 0 else _param(rng, m, 6)
            add("c13.sph %s %d %s %s %s %s %s %s 1 %s" % (m, p, hx(r1), hx(r2), hx(c1), hx(c2), hx(f1), hx(f2), _terms(ts)),
                cls="sub", orient=orient, pc=p != 0)
        # axes of EQUAL width at different positions (distinct limits per axis, bit-identical widths)
        for t in range(rep + 1):
            w = rng.choice([1.0, 0.5, 2.0])
            px, py, pz = rng.sample([-4.0, -2.0, 0.0, 2.0, 4.0], 3)
            orient = rng.randrange(8)
            X, Y, Z = [((q, q + w) if not (orient >> i) & 1 else (q + w, q)) for i, q in enumerate((px, py, pz))]
            ts2 = [(1.0, 1, 2, 0), (3.0, 0, 0, 0)] if m != "Trapezoidal" else [(1.0, 1, 2, 0), (3.0, 0, 0, 0)]
            p = 0 if t % 2 == 0 else _param(rng, m, 3)
            add("c13.int2 %s %d %s %s %s %s 1 %s" % (m, p, hx(X[0]), hx(X[1]), hx(Y[0]), hx(Y[1]), _terms(ts2)),
                cls="poly-eqw", orient=orient & 3, pc=p != 0)
            ts3 = [(1.0, 1, 0, 0), (2.0, 0, 1, 0), (3.0, 0, 0, 1)] + ([] if m == "Trapezoidal" else [(1.0, 1, 2, 3)])
            add("c13.int3 %s %d %s %s %s %s %s %s 1 %s" % (m, p, hx(X[0]), hx(X[1]), hx(Y[0]), hx(Y[1]), hx(Z[0]), hx(Z[1]), _terms(ts3)),
                cls="poly-eqw", orient=orient, pc=p != 0)
        if m == "Gauss-Legendre_2":      # exp(-x)/(1+y^2) on [0,1] x [2,3]
            for p in (0, 31, 8):
                add("c13.fam2 %s %d %s %s %s %s 1 %s %s" % (m, p, hx(0.0), hx(1.0), hx(2.0), hx(3.0), _famstr((0, 1.0, 0.0, 0.0)),
                                                           _famstr((1, 1.0, 0.0, 0.0))), cls="fam-eqw", orient=0, pc=p)
    # ---- Adaptive-Simpson on rational bumps (fix ad02385: Find_Epsilon precision 1e-10) -------------------
    # the request that missed 1e-9 relative before the fix (2.8e-9), then a deterministic family of the same kind:
    # Lorentzian of width ~ interval, peak near an end / at the centre, plus an offset
    orig = (1, 8.386010451258915, 2.667224418300612, 0.3759869620238562)
    for p, (a, b) in ((0, (2.113, 2.755)), (1, (2.113, 2.755)), (0, (2.755, 2.113))):
        add("c13.fam1 Adaptive-Simpson %d %s %s %s" % (p, hx(a), hx(b), _famstr(orig)), cls="bump-orig", orient=int(a > b), pc=p != 0)
    for (a, b) in ((2.113, 2.755), (-1.0, 0.5)):
        L = b - a
        for w in (1.5, 3.456, 6.0):
            for pos in (0.137, 0.5, 0.863):
                for off in ((0.3759869620238562, 0.1) if thorough else (0.3759869620238562,)):
                    f = (1, w / L ** 2, a + pos * L, off)
                    add("c13.fam1 Adaptive-Simpson 0 %s %s %s" % (hx(a), hx(b), _famstr(f)), cls="bump", orient=0, pc=False)
    # ---- Gauss-Legendre_2 with explicit ODD numbers of evaluation points (the central node of an odd rule) -----
    m = "Gauss-Legendre_2"
    for n in (3, 5, 7, 25, 31, 41):
        deg = min(2 * n - 1, 12)
        for orient in (0, 1):
            a, b = _pair(rng, -5, 5, orient)
            ts = [(c, i, 0, 0) for c, i, _, _ in _rterms(rng, 1, [deg, 0, 0], 3)] + [(1.0, deg, 0, 0), (2.0, 0, 0, 0)]
            add("c13.int1 %s %d %s %s %s" % (m, n, hx(a), hx(b), _terms(ts)), cls="poly-odd", orient=orient, pc=n)
        orient = rng.randrange(4)
        (x1, x2), (y1, y2) = _disjoint_pairs(rng, 2, orient)
        d2 = min(2 * n - 1, 4)
        ts = _rterms(rng, 2, [d2, d2, 0]) + [(1.0, min(d2, 1), min(d2, 2), 0), (3.0, 0, 0, 0)]
        add("c13.int2 %s %d %s %s %s %s 1 %s" % (m, n, hx(x1), hx(x2), hx(y1), hx(y2), _terms(ts)), cls="poly-odd", orient=orient, pc=n)
        if n in (3, 7, 31):
            orient = rng.randrange(8)
            (x1, x2), (y1, y2), (z1, z2) = _disjoint_pairs(rng, 3, orient)
            ts = _rterms(rng, 3, [d2, d2, d2]) + [(1.0, 1, 2, min(d2, 3)), (3.0, 0, 0, 0)]
            add("c13.int3 %s %d %s %s %s %s %s %s 1 %s" % (m, n, hx(x1), hx(x2), hx(y1), hx(y2), hx(z1), hx(z2), _terms(ts)),
                cls="poly-odd", orient=orient, pc=n)
            r1, r2 = _pair(rng, 0.2, 3.0, orient & 1)
            c1, c2 = _pair(rng, -0.95, 0.95, (orient >> 1) & 1)
            f1, f2 = _pair(rng, -3.0, 3.0, (orient >> 2) & 1)
            ts = _rterms(rng, 3, [min(d2, 2), d2, d2], 2) + [(1.0, 1, 1, 1), (2.0, 0, 0, 0)]
            add("c13.sph %s %d %s %s %s %s %s %s 1 %s" % (m, n, hx(r1), hx(r2), hx(c1), hx(c2), hx(f1), hx(f2), _terms(ts)),
                cls="sub-odd", orient=orient, pc=n)
    # smooth families: an odd n is used where the EXACT n-point rule reaches a tenth of the method's accuracy
    for t in range(8 * rep):
        orient = t % 2
        a, b = _pair(rng, -5, 5, orient)
        f = _fam(rng, a, b)
        ok = [n for n in (5, 7, 9, 13, 25, 31, 41) if _gl_reaches(f, a, b, n)]
        if not ok:
            continue
        n = ok[0] if t % 2 else rng.choice(ok)     # the smallest sufficient odd rule every other time
        add("c13.fam1 %s %d %s %s %s" % (m, n, hx(a), hx(b), _famstr(f)), cls="fam%d-odd" % f[0], orient=orient, pc=n)
        if t % 4 == 0:
            (x1, x2), (y1, y2) = _disjoint_pairs(rng, 2, rng.randrange(4))
            g, h = _fam(rng, x1, x2), _fam(rng, y1, y2)
            ok2 = [k for k in (25, 31, 41) if _gl_reaches(g, x1, x2, k) and _gl_reaches(h, y1, y2, k)]
            if ok2:
                add("c13.fam2 %s %d %s %s %s %s 1 %s %s" % (m, ok2[0], hx(x1), hx(x2), hx(y1), hx(y2), _famstr(g), _famstr(h)),
                    cls="fam-odd", orient=0, pc=ok2[0])
    # ---- histories in one process (theorem int_history_independent) ---------------------------------------------
    # coarse explicit Gauss-Legendre_2 call, then a finer/default call on IDENTICAL limits; mixed with other methods
    # and limits; 2-D nested calls after a coarse 1-D call on the inner / outer limits
    G = "Gauss-Legendre_2"
    def m1(meth, p, a, b, f):
        return "1 %s %d %s %s %s" % (meth, p, hx(a), hx(b), _famstr(f))
    def m2(meth, p, x1, x2, y1, y2, g, h):
        return "2 %s %d %s %s %s %s %s %s" % (meth, p, hx(x1), hx(x2), hx(y1), hx(y2), _famstr(g), _famstr(h))
    def seq(mem):
        add("c13.seq %d %s" % (len(mem), " ".join(mem)), cls="seq")
    osc = (0, 1.0, 2 * math.pi, 0.0)                 # exp(-x) cos(2 pi x) on [0,2]
    for (p1, p2) in ((4, 0), (3, 30), (5, 41), (30, 4), (4, 31), (0, 4)):
        seq([m1(G, p1, 0.0, 2.0, osc), m1(G, p2, 0.0, 2.0, osc)])
    for (p1, p2) in ((0, 0), (31, 31), (8, 8)):       # same parameter, equal width, different position
        e1, l1 = (0, 1.0, 0.0, 0.0), (1, 1.0, 0.0, 0.0)
        seq([m1(G, p1, 0.0, 1.0, e1), m1(G, p2, 2.0, 3.0, l1), m1(G, p2, -1.0, 0.0, e1)])
        seq([m1(G, p1, 2.0, 3.0, l1), m2(G, p2, 0.0, 1.0, 2.0, 3.0, e1, l1)])
    for t in range(3 * rep):
        a, b = _pair(rng, -5, 5, 0)
        f, g2 = _fam(rng, a, b), _fam(rng, a, b)
        c, d = _pair(rng, -5, 5, t % 2)
        h = _fam(rng, c, d)
        other = rng.choice(["Tanh-Sinh", "Gauss-Legendre", "Gauss-Kronrod", "Adaptive-Simpson"])
        coarse = rng.choice([3, 4, 5, 7])
        fine = rng.choice([0, 30, 41, 25])
        seq([m1(G, coarse, a, b, f), m1(G, fine, a, b, f)])
        seq([m1(G, coarse, a, b, f), m1(G, fine, b, a, g2)])                      # reversed limits, other integrand
        seq([m1(G, coarse, a, b, f), m1(other, 0, a, b, f), m1(G, fine, a, b, g2)])  # another method in between
        seq([m1(G, coarse, a, b, f), m1(G, fine, c, d, h), m1(G, fine, a, b, f)])    # other limits in between
        seq([m1(other, 0, a, b, f), m1(G, fine, a, b, f), m1(G, coarse, a, b, f), m1(other, 0, c, d, h)])
        (x1, x2), (y1, y2) = _disjoint_pairs(rng, 2, rng.randrange(4))
        gx, hy = _fam(rng, x1, x2), _fam(rng, y1, y2)
        seq([m1(G, coarse, y1, y2, hy), m2(G, fine, x1, x2, y1, y2, gx, hy)])     # coarse call on the inner limits first
        seq([m1(G, coarse, x1, x2, gx), m2(G, fine, x1, x2, y1, y2, gx, hy)])     # ... on the outer limits first
        seq([m2(G, coarse, x1, x2, y1, y2, gx, hy), m2(G, fine, x1, x2, y1, y2, gx, hy), m1(G, fine, y1, y2, hy)])
    # ---- Gauss-Kronrod with explicit bisection depths on sharp peaks (the depth must be honoured, not capped) -------
    # Lorentzians 1/(1+((x-c)/w)^2), w = 1e-2 ... 1e-6 (heavy tails: the peak is seen at every level), peak inside / at the
    # midpoint / at an edge, and Gaussians with sigma >= 1e-3 at the midpoint or an edge; depths {default,5,10,12,15,20,25}.
    # The accuracy clause is judged where the depth suffices (see _gk_depth_needed); also in the Integrate_2D product clause.
    K = "Gauss-Kronrod"
    depths = [0, 5, 10, 12, 15, 20, 25]
    for e in range(2, 7):
        for d in depths:
            a = round(rng.uniform(-1.0, -0.2), 3); b = round(rng.uniform(0.5, 1.5), 3)
            w = 10.0 ** (-e + rng.uniform(-0.4, 0.4))
            pos = rng.choice(["in", "mid", "lo", "hi"])
            c = {"in": rng.uniform(a + 0.1, b - 0.1), "mid": (a + b) / 2, "lo": a, "hi": b}[pos]
            if (e + d) % 3 == 0:
                a, b = b, a
            add("c13.fam1 %s %d %s %s %s" % (K, d, hx(a), hx(b), _famstr((1, 1.0 / (w * w), c, 0.0))),
                cls="sharp-lorentz-%s" % pos, orient=int(a > b), pc=d)
    for d in (10, 15, 25):
        a = round(rng.uniform(-1.0, -0.2), 3); b = round(rng.uniform(0.5, 1.5), 3)
        sg = 10.0 ** rng.uniform(-3, -2)
        c = rng.choice([(a + b) / 2, a, b])
        add("c13.fam1 %s %d %s %s %s" % (K, d, hx(a), hx(b), _famstr((2, c, sg, 0.0))), cls="sharp-gauss", orient=0, pc=d)
    for t, (d, e) in enumerate(((15, 4), (20, 4), (12, 3), (20, 5)) if not thorough else ((15, 4), (20, 4), (12, 3), (20, 5), (25, 5), (15, 3), (25, 6), (10, 2))):
        (x1, x2), (y1, y2) = _disjoint_pairs(rng, 2, rng.randrange(4))
        w = 10.0 ** (-e + rng.uniform(-0.3, 0.3))
        sharp_ax = t % 2
        lo_, hi_ = (min(x1, x2), max(x1, x2)) if sharp_ax == 0 else (min(y1, y2), max(y1, y2))
        fs_ = (1, 1.0 / (w * w), rng.uniform(lo_ + 0.05, hi_ - 0.05), 0.0)
        fm_ = _fam(rng, y1, y2) if sharp_ax == 0 else _fam(rng, x1, x2)
        g, h = (fs_, fm_) if sharp_ax == 0 else (fm_, fs_)
        add("c13.fam2 %s %d %s %s %s %s 1 %s %s" % (K, d, hx(x1), hx(x2), hx(y1), hx(y2), _famstr(g), _famstr(h)),
            cls="sharp-2d", orient=0, pc=d)
    # ---- reversing the limits of one axis negates the result exactly (2-D, 3-D; the 1-D requests carry it themselves) ----
    for m in METHODS:
        slow = m in ("Trapezoidal", "Adaptive-Simpson")
        for t in range(2 * rep):
            (x1, x2), (y1, y2), (z1, z2) = _disjoint_pairs(rng, 3, rng.randrange(8))
            if slow:    # quadratic/linear factors keep the nested cost small
                fx, fy, fz = [(3, float(rng.randint(1, 3)), float(rng.randint(-2, 2)), 0.0 if m == "Trapezoidal" else 0.5) for _ in range(3)]
                if t % 2 == 0:
                    fy = _fam(rng, y1, y2)
            else:
                fx, fy, fz = _fam(rng, x1, x2), _fam(rng, y1, y2), _fam(rng, z1, z2)
            add("c13.neg 2 %s 0 %s %s %s %s %s %s" % (m, hx(x1), hx(x2), hx(y1), hx(y2), _famstr(fx), _famstr(fy)), cls="neg2")
            if not (slow and t % 2 == 0) and not (m == "Tanh-Sinh" and not thorough and t > 0):
                add("c13.neg 3 %s 0 %s %s %s %s %s %s %s %s %s" % (m, hx(x1), hx(x2), hx(y1), hx(y2), hx(z1), hx(z2),
                                                                _famstr(fx), _famstr(fy), _famstr(fz)), cls="neg3")
    # ---- a named method inside the integrand of a named method (other method / other parameter / limits depending on x) ----
    def nest(m1, p1, m2, p2, cheap_only=False):
        a0, b0 = _pair(rng, -2, 2, rng.randrange(2))
        kind = rng.randrange(4)
        if kind == 0:
            l0, l1, h0, h1 = 0.0, 0.0, 0.0, 1.0            # y from 0 to x
        elif kind == 1:
            l0, l1, h0, h1 = 0.0, 1.0, 3.0, 0.0            # y from x to 3
        elif kind == 2:
            l0, l1, h0, h1 = dyadic(rng, -2, 0, 1), dyadic(rng, -1, 1, 1), dyadic(rng, 1, 3, 1), dyadic(rng, -1, 1, 1)
        else:
            l0, l1, h0, h1 = dyadic(rng, -2, 0, 1), 0.0, dyadic(rng, 1, 3, 1), 0.0     # fixed inner limits
        slow = "Trapezoidal" in (m1, m2) or cheap_only
        lim = 3
        for mm, pp in ((m1, p1), (m2, p2)):
            if mm == "Gauss-Legendre_2" and pp:
                lim = min(lim, max(0, (2 * pp - 1 - 1) // 2))
        jm = min(1 if slow else 3, lim)
        ts = [(float(rng.choice([-2, -1, 1, 2, 3])), rng.randint(0, min(1 if slow else 2, lim)), rng.randint(0, jm), 0) for _ in range(2)]
        ts.append((2.0, 0, min(1, jm), 0))
        add("c13.nest %s %d %s %d %s %s %s %s %s %s %s" % (m1, p1, m2, p2, hx(a0), hx(b0), hx(l0), hx(l1), hx(h0), hx(h1), _terms(ts)),
            cls="nest")
    G2, GK_ = "Gauss-Legendre_2", "Gauss-Kronrod"
    for (p1, p2) in ((0, 40), (0, 8), (40, 0), (9, 31), (31, 9), (5, 4)):          # same method, different node counts
        nest(G2, p1, G2, p2)
    for (p1, p2) in ((0, 12), (12, 0), (3, 8)):
        nest(GK_, p1, GK_, p2)
    for i1, m1 in enumerate(METHODS):
        for i2, m2 in enumerate(METHODS):
            if not thorough and (i1 + 2 * i2 + seed) % 3 != 0 and m1 != m2:
                continue
            if "Trapezoidal" in (m1, m2) and m1 != m2 and not thorough and (i1 + i2 + seed) % 2:
                continue
            nest(m1, 0 if (i1 + i2) % 2 else _param(rng, m1, 7), m2, _param(rng, m2, 7) if (i1 + i2) % 2 else 0)
    # ---- first evaluations of the spherical overload in a FRESH process: every method x {default/symmetric range of
    # cos theta, range starting or ending at 0, generic}: the recorded-vector clause on every vector of the first sweep ----
    for m in METHODS:
        for k_ in range(6 if not thorough else 12):
            r1, r2 = _pair(rng, 0.2, 3.0, k_ % 2)
            c0 = round(rng.uniform(0.2, 0.95), 3)
            c1, c2 = [(-1.0, 1.0), (-c0, c0), (0.0, c0), (c0, 0.0), (-c0, 0.0), _pair(rng, -0.95, 0.95, 0)][k_ % 6]
            if k_ % 6 in (0, 1) and k_ >= 6:
                c1, c2 = c2, c1
            f1, f2 = (0.0, 2 * math.pi) if k_ % 3 == 0 else _pair(rng, -3.0, 3.0, k_ % 2)
            p = 0 if k_ % 2 == 0 else _param(rng, m, 6)
            add("c13.sphfirst %s %d %s %s %s %s %s %s" % (m, p, hx(r1), hx(r2), hx(c1), hx(c2), hx(f1), hx(f2)), cls="sphfirst")
    # ---- audit D additions --------------------------------------------------------------------------------------
    # batch sweeps judged inside the harness against long-double closed forms (all six methods; the generator's own ranges)
    for m in METHODS:
        nsw = 20000 if (m == "Adaptive-Simpson" or thorough) else 3000
        if m == "Trapezoidal":
            nsw = 4000 if thorough else 600
        add("c13.sweep %s %d %d" % (m, nsw, seed), cls="sweep")
    # the three inputs on which 'Adaptive-Simpson' misses 1e-9 relative (accidental zero of S2 - S accepted at the first hit)
    add("c13.asknown Adaptive-Simpson 0 %s %s %s" % (hx(-1.0), hx(3.3), _famstr((1, 0.2, 0.0, 0.1))), cls="as-known")
    add("c13.asknown Adaptive-Simpson 0 %s %s %s" % (hx(1.879337883194661), hx(4.2891839740241835),
                                                   _famstr((1, 1.0323651571500432, 4.1594401570168316, 0.35241153956725901))), cls="as-known")
    add("c13.asknownp Adaptive-Simpson 0 %s %s %s" % (hx(-2.589), hx(2.878), _terms([(1.0, 7, 0, 0), (-1.0, 5, 0, 0)])), cls="as-known")
    # equal limits on one or more axes: exactly zero, for all nine methods (2-D, 3-D, spherical)
    for m in METHODS + MC:
        for t in range(2 if not thorough else 4):
            (x1, x2), (y1, y2), (z1, z2) = _disjoint_pairs(rng, 3, rng.randrange(8))
            mask = [1, 2, 4, 3, 5, 6, 7][(t * 3 + len(m) + seed) % 7]
            L2 = [x1, x1 if mask & 1 else x2, y1, y1 if mask & 2 else y2]
            if not (mask & 3):
                L2[3] = L2[2]
            add("c13.int2 %s 0 %s %s %s %s %d %s" % (m, hx(L2[0]), hx(L2[1]), hx(L2[2]), hx(L2[3]), rng.randint(1, 10 ** 6),
                                                    _terms([(1.0, 1, 2, 0), (3.0, 0, 0, 0)])), cls="eq2", orient=0, pc=False)
            L3 = [x1, x1 if mask & 1 else x2, y1, y1 if mask & 2 else y2, z1, z1 if mask & 4 else z2]
            add("c13.int3 %s 0 %s %s %s %s %s %s %d %s" % ((m,) + tuple(hx(v) for v in L3) + (rng.randint(1, 10 ** 6),
                                                          _terms([(1.0, 1, 0, 0), (2.0, 0, 1, 0), (3.0, 0, 0, 1), (5.0, 0, 0, 0)]))), cls="eq3", orient=0, pc=False)
            r1, r2 = _pair(rng, 0.5, 2.0, 0); c1, c2 = _pair(rng, -0.9, 0.9, 0); f1, f2 = _pair(rng, -2.0, 2.0, 0)
            S = [r1, r1 if mask & 1 else r2, c1, c1 if mask & 2 else c2, f1, f1 if mask & 4 else f2]
            add("c13.sph %s 0 %s %s %s %s %s %s %d %s" % ((m,) + tuple(hx(v) for v in S) + (rng.randint(1, 10 ** 6),
                                                         _terms([(1.0, 1, 0, 0), (2.0, 0, 0, 0)]))), cls="eqsph", orient=0, pc=False)
    # Monte-Carlo front ends with reversed limits: orientations 1..7, the sign of the result follows the limits
    for m in MC:
        for orient in ([1, 2, 3, 5, 6, 7, 4] if thorough else [[1, 6], [2, 5], [3, 4], [7, 1]][(seed + len(m)) % 4]):
            (x1, x2), (y1, y2), (z1, z2) = _disjoint_pairs(rng, 3, orient)
            sd = rng.randint(1, 10 ** 6)
            add("c13.int2 %s 0 %s %s %s %s %d %s" % (m, hx(x1), hx(x2), hx(y1), hx(y2), sd,
                                                    _terms([(1.0, 2, 0, 0), (2.0, 0, 2, 0), (1.0, 1, 1, 0), (30.0, 0, 0, 0)])),
                cls="mc-rev", orient=orient & 3, pc=False)
            add("c13.int3 %s 0 %s %s %s %s %s %s %d %s" % (m, hx(x1), hx(x2), hx(y1), hx(y2), hx(z1), hx(z2), sd,
                                                          _terms([(1.0, 2, 0, 0), (2.0, 0, 2, 0), (3.0, 0, 0, 2), (40.0, 0, 0, 0)])),
                cls="mc-rev", orient=orient, pc=False)
    # explicit Gauss-Kronrod depths 1, 2 and Gauss-Legendre_2 with 64 / 100 nodes
    for (m, p) in (("Gauss-Kronrod", 1), ("Gauss-Kronrod", 2), ("Gauss-Legendre_2", 64), ("Gauss-Legendre_2", 100)):
        a, b = _pair(rng, -5, 5, p % 2)
        add("c13.fam1 %s %d %s %s %s" % (m, p, hx(a), hx(b), _famstr(_fam(rng, a, b))), cls="fam-param", orient=p % 2, pc=p)
        ts = [(c, i, 0, 0) for c, i, _, _ in _rterms(rng, 1, [12, 0, 0], 3)] + [(1.0, 12, 0, 0)]
        add("c13.int1 %s %d %s %s %s" % (m, p, hx(b), hx(a), _terms(ts)), cls="poly-param", orient=1 - p % 2, pc=p)
        (x1, x2), (y1, y2) = _disjoint_pairs(rng, 2, rng.randrange(4))
        add("c13.fam2 %s %d %s %s %s %s 1 %s %s" % (m, p, hx(x1), hx(x2), hx(y1), hx(y2), _famstr(_fam(rng, x1, x2)), _famstr(_fam(rng, y1, y2))),
            cls="fam-param", orient=0, pc=p)
    # defaults of Integrate_2D, the Cartesian Integrate_3D and the partial angular defaults of the spherical overload
    (x1, x2), (y1, y2), (z1, z2) = _disjoint_pairs(rng, 3, rng.randrange(8))
    add("c13.default23 %s %s %s %s %s %s" % (hx(x1), hx(x2), hx(y1), hx(y2), hx(z1), hx(z2)), cls="default")
    # spherical: phi ranges beyond pi, cos(theta) ranges touching +-1, for the four cheaper methods; one radial exp / Gaussian
    for m in ("Gauss-Legendre", "Gauss-Kronrod", "Gauss-Legendre_2", "Adaptive-Simpson"):
        low = m == "Adaptive-Simpson"
        for t in range(2):
            r1, r2 = _pair(rng, 0.2, 3.0, t)
            c1, c2 = [(-1.0, round(rng.uniform(-0.5, 0.9), 3)), (round(rng.uniform(-0.9, 0.5), 3), 1.0)][(t + seed) % 2]
            f1, f2 = [(round(rng.uniform(2.0, 3.0), 3), round(rng.uniform(4.0, 6.2), 3)), (round(rng.uniform(-6.2, -4.0), 3), round(rng.uniform(-3.0, -1.0), 3))][t]
            if (seed + t) % 2:
                f1, f2 = f2, f1
            # (on the polar axis the azimuth is undefined, so a function of the VECTOR cannot depend on phi there: no phi terms)
            md = [1, 1, 0] if low else [3, 3, 0]
            ts = _rterms(rng, 3, md, 2) + [(1.0, 1, 1, 0), (4.0, 0, 0, 0)]
            add("c13.sph %s 0 %s %s %s %s %s %s 1 %s" % (m, hx(r1), hx(r2), hx(c1), hx(c2), hx(f1), hx(f2), _terms(ts)),
                cls="sub-edge", orient=t, pc=False)
    mrad = ["Gauss-Legendre", "Gauss-Kronrod", "Gauss-Legendre_2", "Tanh-Sinh"][seed % 4]
    add("c13.sphrad %s 0 %s %s 0 %s" % (mrad, hx(0.0), hx(round(rng.uniform(2.0, 6.0), 3)), hx(round(rng.uniform(0.5, 2.0), 3))), cls="sphrad")
    add("c13.sphrad %s 0 %s %s 1 %s" % ("Gauss-Legendre", hx(round(rng.uniform(0.1, 1.0), 3)), hx(round(rng.uniform(2.0, 5.0), 3)), hx(round(rng.uniform(0.5, 1.5), 3))), cls="sphrad")
    # one Adaptive-Simpson product of three smooth family members per seed
    (x1, x2), (y1, y2), (z1, z2) = _disjoint_pairs(rng, 3, rng.randrange(8))
    add("c13.fam3 Adaptive-Simpson 0 %s %s %s %s %s %s 1 %s %s %s" % (hx(x1), hx(x2), hx(y1), hx(y2), hx(z1), hx(z2),
                                                                   _famstr((2, (x1 + x2) / 2, 3 * abs(x2 - x1), 0.5)), _famstr((1, 0.1 / (y2 - y1) ** 2, y1, 0.5)),
                                                                   _famstr((2, z1, 3 * abs(z2 - z1), 0.5))), cls="fam-as3", orient=0, pc=False)
    # ---- Monte-Carlo front ends --------------------------------------------------------------------
    for m in MC:
        for t in range(2 * rep):
            (x1, x2), (y1, y2), (z1, z2) = _disjoint_pairs(rng, 3, 0)
            p = 0 if t % 2 == 0 else 20000
            sd = rng.randint(1, 10 ** 6)
            # positive integrands with moderate variation: 10 + x + 2y (+ 3z) with |x|,|y|,|z| <= 7 would change sign: square terms
            add("c13.int2 %s %d %s %s %s %s %d %s" % (m, p, hx(x1), hx(x2), hx(y1), hx(y2), sd,
                                                     _terms([(1.0, 2, 0, 0), (2.0, 0, 2, 0), (1.0, 1, 1, 0), (30.0, 0, 0, 0)])),
                cls="mc", orient=0, pc=p != 0)
            add("c13.int3 %s %d %s %s %s %s %s %s %d %s" % (m, p, hx(x1), hx(x2), hx(y1), hx(y2), hx(z1), hx(z2), sd,
                                                           _terms([(1.0, 2, 0, 0), (2.0, 0, 2, 0), (3.0, 0, 0, 2), (40.0, 0, 0, 0)])),
                cls="mc", orient=0, pc=p != 0)
        r1, r2 = _pair(rng, 0.5, 2.0, 0)
        add("c13.sph %s 0 %s %s %s %s %s %s %d %s" % (m, hx(r1), hx(r2), hx(-0.5), hx(0.75), hx(-1.0), hx(2.0), rng.randint(1, 10 ** 6),
                                                     _terms([(1.0, 1, 0, 0), (2.0, 0, 0, 0)])), cls="mc", orient=0, pc=False)
    # ---- unknown method names at every level (class A) ---------------------------------------------------
    for nm in BOGUS + MC:
        add("c13.outcome1 %s %s %s" % (nm, hx(0.0), hx(1.0)), cls="bad1")
    for nm in BOGUS[:3]:
        add("c13.outcome1 %s %s %s" % (nm, hx(1.5), hx(1.5)), cls="bad1eq")     # unknown name on a degenerate interval: diagnostic (fix d39b5c1)
    for nm in BOGUS + METHODS[:2] + MC[:1]:
        add("c13.outcome2 %s" % nm, cls="bad2")
        add("c13.outcome3 %s" % nm, cls="bad3")
        if nm != "Trapezoidal":      # (a recognised name runs the whole integration: ~2 s for Trapezoidal)
            add("c13.outcomesph %s" % nm, cls="badsph")
        add("c13.outcomemc %s" % nm, cls="badmc")
    # ---- helpers ------------------------------------------------------------------------------------------
    for t in range(30 * rep):
        a, b = dyadic(rng, -8, 8, 3), dyadic(rng, -8, 8, 3)
        add("c13.checklimits %s %s" % (hx(a), hx(b)), cls="limits")
        c = [dyadic(rng, -4, 4, 2) for _ in range(rng.randint(1, 5))]
        add("c13.findeps %s %s %s %s" % (hx(a), hx(b), hx(rng.choice([1e-9, 1e-6, 0.5, -1e-3])), lst(c)), cls="findeps")
    for t in range(3):
        a, b = _pair(rng, -3, 3, t % 2)
        add("c13.default1 %s %s %s" % (hx(a), hx(b), _terms([(1.0, 5, 0, 0), (-2.0, 1, 0, 0)])), cls="default")
        r1, r2 = _pair(rng, 0.2, 2.0, 0)
        add("c13.sphdefault %s %s %s" % (hx(r1), hx(r2), _terms([(1.0, 2, 0, 0), (1.0, 0, 0, 0)])), cls="default")
    ctx["meta"] = meta
    ctx["worst"] = {}
    return R


# --------------------------------------------------------------------------------------------------

def _worst(ctx, key, v):
    ctx.setdefault("worst", {})
    if v > ctx["worst"].get(key, 0):
        ctx["worst"][key] = v


def _parse_terms(tk, pos):
    n = int(tk[pos]); pos += 1
    ts = []
    for _ in range(n):
        ts.append((Fraction(fl(tk[pos])), int(tk[pos + 1]), int(tk[pos + 2]), int(tk[pos + 3]))); pos += 4
    return ts, pos


def _mono_int(a, b, k):
    return (b ** (k + 1) - a ** (k + 1)) / (k + 1)


def _exact(ts, lims):
    """exact iterated integral of the polynomial over the oriented box"""
    tot = Fraction(0)
    for c, i, j, k in ts:
        v = c
        for (a, b), e in zip(lims, (i, j, k)):
            v *= _mono_int(a, b, e)
        tot += v
    return tot


def _scale(ts, lims):
    tot = Fraction(0)
    for c, i, j, k in ts:
        v = abs(c)
        for (a, b), e in zip(lims, (i, j, k)):
            v *= max(abs(a), abs(b)) ** e * abs(b - a)
        tot += v
    return tot


def _ranges(vals, lims, slack=Fraction(0)):
    """recorded (lo,hi) of every argument inside its own limit pair"""
    bad = []
    for ax, (a, b) in enumerate(lims):
        sl = slack[ax] if isinstance(slack, list) else slack
        lo, hi = vals[2 * ax], vals[2 * ax + 1]
        if math.isinf(lo) and math.isinf(hi):      # nothing recorded on this axis (no evaluation)
            continue
        if math.isnan(lo) or math.isnan(hi):
            bad.append(ax); continue
        mn, mx = min(a, b), max(a, b)
        if Fraction(lo) < mn - sl or Fraction(hi) > mx + sl:
            bad.append(ax)
    return bad


def _mpfam(f):
    k, p0, p1, p2 = f
    if k == 0:
        return lambda x: mpmath.exp(-p0 * x) * mpmath.cos(p1 * x + p2)
    if k == 1:
        return lambda x: 1 / (1 + p0 * (x - p1) ** 2) + p2
    return lambda x: mpmath.exp(-(x - p0) ** 2 / (2 * p1 * p1)) + p2


_FAMCACHE = {}


def _pyfam(f):
    k, p0, p1, p2 = f
    if k == 0:
        return lambda x: math.exp(-p0 * x) * math.cos(p1 * x + p2)
    if k == 1:
        return lambda x: 1 / (1 + p0 * (x - p1) ** 2) + p2
    return lambda x: math.exp(-(x - p0) ** 2 / (2 * p1 * p1)) + p2


def _fam_ref(f, a, b):
    """(integral a..b with mpmath, integral of |f| over the interval (scale only: 400-point midpoint sum),
    |first Simpson estimate| (informational))"""
    key = (f, a, b)
    if key in _FAMCACHE:
        return _FAMCACHE[key]
    g = _mpfam(f)
    lo, hi = min(a, b), max(a, b)
    gf = _pyfam(f)
    k, p0, p1, p2 = f
    if k == 1 and p2 >= 0:      # closed form (exact also for sharp peaks): atan
        rt = mpmath.sqrt(mpmath.mpf(p0))
        I = (mpmath.atan(rt * (mpmath.mpf(hi) - p1)) - mpmath.atan(rt * (mpmath.mpf(lo) - p1))) / rt + mpmath.mpf(p2) * (mpmath.mpf(hi) - lo)
        A = float(I)
    elif k == 2 and p2 >= 0:    # closed form: erf
        sg = mpmath.mpf(p1)
        I = sg * mpmath.sqrt(mpmath.pi / 2) * (mpmath.erf((mpmath.mpf(hi) - p0) / (sg * mpmath.sqrt(2))) - mpmath.erf((mpmath.mpf(lo) - p0) / (sg * mpmath.sqrt(2)))) \
            + mpmath.mpf(p2) * (mpmath.mpf(hi) - lo)
        A = float(I)
    else:
        I = mpmath.quad(g, [lo + (hi - lo) * i / 4 for i in range(5)])
        N = 400
        A = sum(abs(gf(lo + (hi - lo) * (i + 0.5) / N)) for i in range(N)) * (hi - lo) / N
    S = (hi - lo) / 6 * (gf(lo) + 4 * gf((lo + hi) / 2) + gf(hi))
    r = ((I if b >= a else -I), mpmath.mpf(A), mpmath.mpf(abs(S)))
    _FAMCACHE[key] = r
    return r


def _peak_width(f, a, b):
    """(width of the peak, is it sharp relative to the interval) for the rational / Gaussian families"""
    k, p0, p1, p2 = f
    L = abs(b - a)
    if k == 1:
        w = 1 / math.sqrt(p0)
    elif k == 2:
        w = abs(p1)
    else:
        return None, False
    return w, w < L / 64


def _gk_depth_needed(f, a, b):
    """Bisection levels a correct adaptive 31-point Gauss-Kronrod needs for the peak: a panel of half width H resolves
    poles at distance w to ~1e-9 when H <= 2w (Bernstein ellipse rho = w/H + sqrt(1+(w/H)^2) >= 1.57, rho^-46 <= 1e-9),
    i.e. panel width L/2^d <= 4w.  Accuracy is JUDGED from two levels beyond that (margin); below, the property's
    clause 'accuracy at the requested depth' is not decidable without a model of Boost's error estimator."""
    w, sharp = _peak_width(f, a, b)
    if not sharp:
        return 0
    return max(0, math.ceil(math.log2(abs(b - a) / (4 * w))))


def _judged(meth, p, fams, pairs, ctx):
    """is the accuracy clause applicable to this request?  (Gauss-Kronrod on sharp peaks: only with enough depth)"""
    need = max(_gk_depth_needed(f, x1, x2) for f, (x1, x2) in zip(fams, pairs))
    if need == 0:
        return True
    if meth != "Gauss-Kronrod":
        return False
    depth = 5 if p == 0 else p
    ok = depth >= need + 2
    bump(ctx, "sharp-peak:judged" if ok else "sharp-peak:depth-too-small-not-judged")
    return ok


FLOOR_K = 256     # rounding floor K * 2^-53 * (conditioning scale): evaluating/summing the integrand in double


def _tolerance(meth, rel, ref, sc):
    """the method's accuracy: for the five 1e-9 methods RELATIVE TO |I| (the exact integral) plus the rounding floor of the
    conditioning scale sc (integral of |f| / sum of |terms|); Trapezoidal and the Monte-Carlo front ends relative to sc
    (see ASSUMPTIONS)"""
    if meth == "Trapezoidal" or meth in MC:
        return rel * sc
    return rel * abs(ref) + FLOOR_K * EPS * sc


def _fams(tk, pos, n):
    out = []
    for _ in range(n):
        out.append((int(tk[pos]), fl(tk[pos + 1]), fl(tk[pos + 2]), fl(tk[pos + 3]))); pos += 4
    return out


def _seq_members(a):
    k = int(a[0]); pos = 1; mem = []
    for _ in range(k):
        dim = int(a[pos]); meth = a[pos + 1]; p = int(a[pos + 2]); pos += 3
        lim = [fl(t) for t in a[pos:pos + 2 * dim]]; pos += 2 * dim
        fams = _fams(a, pos, dim); pos += 4 * dim
        mem.append((dim, meth, p, lim, fams))
    return mem


def _member_str(c):
    dim, meth, p, lim, fams = c
    return "%s(%s, p=%d, limits %s)" % ("Integrate" if dim == 1 else "Integrate_2D", meth, p, ", ".join("%.6g" % v for v in lim))


def compare_seq(rq, impl, model, ctx):
    """history (class D, theorem int_history_independent): every call of a sequence made in one process returns
    bit for bit what the same call returns alone in a fresh process; plus the accuracy clause on every member"""
    a = rq.split()[1:]
    mem = _seq_members(a)
    k = len(mem)
    fs, both = std_outcome(rq, impl, model)
    if tag(impl) == "timeout":
        return [fail("prop", "integration does not terminate within the time limit", rq[:80])]
    if not both:
        return fs
    t = toks(impl)
    if len(t) != 2 * k + 2 or t[k + 1] != "alone":
        return fs + [fail("corr", "protocol", impl[:100])]
    out = list(fs)
    ctx["nontrivial"].add(("c13.seq", tuple((c[0], c[1], c[2]) for c in mem)))
    for i, c in enumerate(mem):
        dim, meth, p, lim, fams = c
        sv, av = t[1 + i], t[k + 2 + i]
        if sv != av:
            out.append(fail("prop", "result of a named 1-D method depends on the calls made before it",
                            "%s returned %r after [%s], %r when made alone in a fresh process"
                            % (_member_str(c), fl(sv), "; ".join(_member_str(x) for x in mem[:i]), fl(av))))
        # accuracy of the member (only where a correct rule with that parameter can reach it)
        n_eff = 30 if p == 0 else p
        pairs = [(lim[2 * j], lim[2 * j + 1]) for j in range(dim)]
        if meth == "Gauss-Legendre_2" and not all(_gl_reaches(f, x1, x2, n_eff) for f, (x1, x2) in zip(fams, pairs)):
            continue
        ref, sc = Fraction(1), Fraction(1)
        for f, (x1, x2) in zip(fams, pairs):
            I, A, S = _fam_ref(f, x1, x2)
            ref *= Fraction(float(I)) + Fraction(float(I - float(I)))
            sc *= Fraction(float(A))
        rel = REL.get(meth, REL_DEFAULT) * dim
        v = fl(sv)
        if math.isnan(v) or math.isinf(v) or abs(Fraction(v) - ref) > _tolerance(meth, rel, ref, sc):
            out.append(fail("prop", "1-D integral outside the method's accuracy" if dim == 1 else
                            "separable integrand: result is not the product of the 1-D integrals",
                            "%s in a sequence: %r vs %.17g (scale %.3g)" % (_member_str(c), v, float(ref), float(sc))))
        elif sc:
            _worst(ctx, "seq %s err/tol" % meth, float(abs(Fraction(v) - ref) / _tolerance(meth, rel, ref, sc)))
    return out


def _padd(p, q):
    n = max(len(p), len(q))
    return [(p[i] if i < len(p) else 0) + (q[i] if i < len(q) else 0) for i in range(n)]


def _pmul(p, q):
    r = [Fraction(0)] * (len(p) + len(q) - 1)
    for i, x in enumerate(p):
        for j, y in enumerate(q):
            r[i + j] += x * y
    return r


def _ppow(p, k):
    r = [Fraction(1)]
    for _ in range(k):
        r = _pmul(r, p)
    return r


def compare_nest(rq, impl, model, ctx):
    """re-entrant use (theorems nested_methods_eq / nested_methods_ordered): Integrate(F,a,b,M1,p1) with
    F(x) = Integrate(g(x,.), lo(x), hi(x), M2, p2) equals M1 applied to the recorded values of F (class D, bit for bit, every
    outer evaluation point of the second run already seen in the first) and the exact iterated integral (accuracy)"""
    a = rq.split()[1:]
    m1, p1, m2, p2 = a[0], int(a[1]), a[2], int(a[3])
    x0, x1, l0, l1, h0, h1 = [Fraction(fl(t)) for t in a[4:10]]
    ts, _ = _parse_terms(a, 10)
    fs, both = std_outcome(rq, impl, model)
    if tag(impl) == "timeout":
        return [fail("prop", "integration does not terminate within the time limit", rq[:80])]
    ctx["nontrivial"].add(("c13.nest", m1, p1 != 0, m2, p2 != 0, l1 != 0 or h1 != 0))
    if not both:
        return fs
    t = toks(impl)
    v1, v2 = fl(t[0]), fl(t[1])
    n1, n2, misses = int(t[2]), int(t[3]), int(t[4])
    lo, hi = fl(t[5]), fl(t[6])
    out = list(fs)
    what = "outer %s (parameter %d), integrand calls %s (parameter %d)" % (m1, p1, m2, p2)
    if misses or n1 != n2 or t[0] != t[1]:
        out.append(fail("prop", "nested use of the named methods: result is not the outer integral of the integrand's values",
                        "%s: nested run %r with %d outer evaluations; the outer method alone on the recorded values %r with %d "
                        "evaluations, %d of them at points the nested run never evaluated" % (what, v1, n1, v2, n2, misses)))
    if n1 and (Fraction(lo) < min(x0, x1) or Fraction(hi) > max(x0, x1)):
        out.append(fail("prop", "integrand evaluated outside the limits", "%s: outer points in [%r, %r]" % (what, lo, hi)))
    # exact iterated integral of the polynomial with affine inner limits
    tot, scale = Fraction(0), Fraction(0)
    X = max(abs(x0), abs(x1))
    Y = max(abs(l0) + abs(l1) * X, abs(h0) + abs(h1) * X)
    Wd = abs(h0 - l0) + abs(h1 - l1) * X
    for c, i, j, _k in ts:
        inner = [q / (j + 1) for q in _padd(_ppow([h0, h1], j + 1), [-q for q in _ppow([l0, l1], j + 1)])]
        poly = _pmul([Fraction(0)] * i + [Fraction(1)], inner)
        tot += c * sum(ck * (x1 ** (m + 1) - x0 ** (m + 1)) / (m + 1) for m, ck in enumerate(poly))
        scale += abs(c) * X ** i * Y ** j * Wd * abs(x1 - x0)
    if fr(toks(model)[0]) != tot:
        out.append(fail("corr", "model value is not the exact iterated integral (reference rule not exact?)", ""))
    rel = max(REL.get(m1, REL_DEFAULT), REL.get(m2, REL_DEFAULT)) * 2
    meth = "Trapezoidal" if "Trapezoidal" in (m1, m2) else m1
    tol = _tolerance(meth, rel, tot, scale)
    if math.isnan(v1) or math.isinf(v1):
        return out + [fail("prop", "result is not finite", what)]
    _worst(ctx, "nest %s/%s err/tol" % (m1, m2), float(abs(Fraction(v1) - tot) / tol) if tol else 0.0)
    if abs(Fraction(v1) - tot) > tol:
        out.append(fail("prop", "nested integral outside the method's accuracy of the exact iterated integral",
                        "%s: %r vs %.17g (scale %.3g)" % (what, v1, float(tot), float(scale))))
    return out


def compare_sphfirst(rq, impl, model, ctx):
    """the property's own statement on EVERY vector of the first evaluations of the spherical overload in a fresh process:
    norm r, polar angle acos(cos theta), azimuth phi, where (r, cos theta, phi) are the integration variables — the points
    the same method evaluates first on the same limits (Cartesian overload)"""
    a = rq.split()[1:]
    m = a[0]
    fs, both = std_outcome(rq, impl, model)
    if not both:
        return fs
    t = toks(impl)
    nv = int(t[0]); V = [[fl(x) for x in t[1 + 3 * i:4 + 3 * i]] for i in range(nv)]
    pos = 1 + 3 * nv
    npt = int(t[pos]); Pt = [[fl(x) for x in t[pos + 1 + 3 * i:pos + 4 + 3 * i]] for i in range(npt)]
    out = list(fs)
    L = [fl(x) for x in a[2:8]]
    ctx["nontrivial"].add(("c13.sphfirst", m, L[2] == -L[3], L[2] == 0.0 or L[3] == 0.0))
    K = min(8, nv, npt)      # the first evaluation points do not depend on integrand values for any of the six methods
    if K < 5:
        return out + [fail("prop", "spherical overload: integrand evaluated fewer than five times", "%d" % nv)]
    u = 16 * float(EPS)
    for j in range(K):
        (vx, vy, vz), (r, c, ph) = V[j], Pt[j]
        if any(math.isnan(q) for q in V[j]):
            out.append(fail("prop", "spherical overload: integrand received a vector that is not 3-dimensional", "")); break
        nrm = math.sqrt(vx * vx + vy * vy + vz * vz)
        st = math.sqrt(max(0.0, (1 - c) * (1 + c)))
        bad = []
        if abs(nrm - abs(r)) > u * abs(r):
            bad.append("norm %r instead of r = %r" % (nrm, r))
        if nrm > 0 and abs(vz / nrm - c * (1 if r >= 0 else -1)) > u:
            bad.append("cos(polar angle) %r instead of the integration variable cos theta = %r" % (vz / nrm, c))
        if st > 1e-6 and r != 0 and (abs(vx / (r * st) - math.cos(ph)) > 4 * u or abs(vy / (r * st) - math.sin(ph)) > 4 * u):
            bad.append("azimuth %r instead of phi = %r" % (math.atan2(vy, vx), ph))
        if bad:
            out.append(fail("prop", "spherical overload: norm/polar angle/azimuth of the vectors are not the integration variables",
                            "%s, evaluation %d of a fresh process at (r, cos theta, phi) = (%r, %r, %r): vector (%r, %r, %r): %s"
                            % (m, j, r, c, ph, vx, vy, vz, "; ".join(bad))))
            break
    return out


def compare_sweep(rq, impl, model, ctx):
    """batch of N family members through one named method, judged in the harness against long-double closed forms at the
    method's accuracy (1e-9 |I| + 256 eps int|f|; Trapezoidal 1e-6 int|f|)"""
    a = rq.split()[1:]
    m, N = a[0], int(a[1])
    fs, both = std_outcome(rq, impl, model)
    if tag(impl) == "timeout":
        return [fail("prop", "integration does not terminate within the time limit", rq)]
    if not both:
        return fs
    t = toks(impl)
    nfail, worst, nb = int(t[1]), fl(t[2]), int(t[3])
    ctx["nontrivial"].add(("c13.sweep", m))
    bump(ctx, "sweep:%s:integrands" % m, int(t[0]))
    _worst(ctx, "sweep %s err/tol" % m, worst if nfail == 0 else 0.0)
    if nfail == 0:
        return fs
    bump(ctx, "sweep:%s:failures" % m, nfail)
    b = [fl(x) for x in t[4:4 + 9]]
    fam = {0: "exp(-%r x) cos(%r x + %r)", 1: "1/(1 + %r (x - %r)^2) + %r", 2: "exp(-(x - %r)^2/(2 %r^2)) + %r"}[int(b[0])] % (b[1], b[2], b[3])
    return fs + [fail("prop", "1-D integral outside the method's accuracy (batch sweep)",
                      "%s: %d of %d family members miss; first: Integrate(%s, %r, %r) = %.17g vs %.17g (relative %.3g)"
                      % (m, nfail, int(t[0]), fam, b[4], b[5], b[6], b[7], b[8]))]


def compare_sphrad(rq, impl, model, ctx):
    a = rq.split()[1:]
    m, r1, r2, kind, par = a[0], fl(a[2]), fl(a[3]), int(a[4]), fl(a[5])
    fs, both = std_outcome(rq, impl, model)
    if not both:
        return fs
    v = fl(toks(impl)[0])
    g = (lambda r: r * r * mpmath.exp(-par * r)) if kind == 0 else (lambda r: r * r * mpmath.exp(-r * r / (2 * par * par)))
    I = 4 * mpmath.pi * mpmath.quad(g, [r1, (r1 + r2) / 2, r2])
    ref = Fraction(float(I)) + Fraction(float(I - float(I)))
    ctx["nontrivial"].add(("c13.sphrad", m, kind))
    tol = _tolerance(m, REL.get(m, REL_DEFAULT) * 3, ref, abs(ref))
    _worst(ctx, "sphrad %s err/tol" % m, float(abs(Fraction(v) - ref) / tol))
    if math.isnan(v) or abs(Fraction(v) - ref) > tol:
        return fs + [fail("prop", "full sphere: result is not 4 pi times the radial integral of r^2 f", "%s: %r vs %.17g" % (m, v, float(ref)))]
    return fs


def compare_neg(rq, impl, model, ctx):
    """'reversing the limits negates the result', per axis, bit for bit (theorems int1_swap, nested_swap_inner,
    nested_swap_axes_3D)"""
    a = rq.split()[1:]
    dim, meth = int(a[0]), a[1]
    fs, both = std_outcome(rq, impl, model)
    if tag(impl) == "timeout":
        return [fail("prop", "integration does not terminate within the time limit", rq[:80])]
    if not both:
        return fs
    v = [fl(t) for t in toks(impl)]
    out = list(fs)
    ctx["nontrivial"].add(("c13.neg", dim, meth))
    for i in range(dim):
        if not (v[1 + i] == -v[0]):
            out.append(fail("prop", "reversing the limits does not negate the result exactly",
                            "Integrate_%dD, %s: axis %d reversed gives %r, unreversed %r" % (dim, meth, i, v[1 + i], v[0])))
    sgn = -1.0 if dim % 2 else 1.0
    if not (v[1 + dim] == sgn * v[0]):
        out.append(fail("prop", "reversing the limits does not negate the result exactly",
                        "Integrate_%dD, %s: all axes reversed gives %r, unreversed %r" % (dim, meth, v[1 + dim], v[0])))
    return out


def compare(rq, impl, model, ctx):
    tk = rq.split()
    op, a = tk[0], tk[1:]
    bump(ctx, op)
    md = ctx.get("meta", {}).get(rq, {})
    if op == "c13.selftest":
        if tag(model) != "ok" or any(fr(t) != 0 for t in toks(model)):
            return [fail("corr", "driver self-test (Newton-Cotes reference rule) failed", model[:200])]
        return []
    if op == "c13.seq":
        return compare_seq(rq, impl, model, ctx)
    if op == "c13.neg":
        return compare_neg(rq, impl, model, ctx)
    if op == "c13.nest":
        return compare_nest(rq, impl, model, ctx)
    if op == "c13.sweep":
        return compare_sweep(rq, impl, model, ctx)
    if op == "c13.sphrad":
        return compare_sphrad(rq, impl, model, ctx)
    if op == "c13.default23":
        fs, both = std_outcome(rq, impl, model)
        if not both:
            return fs
        t = toks(impl)
        ctx["nontrivial"].add((op,))
        bad = [i for i in (0, 3) if not (t[i] == t[i + 1] == t[i + 2])] + [i for i in (6, 8, 10) if t[i] != t[i + 1]]
        return fs + ([fail("prop", "default arguments are not (\"Gauss-Legendre\", 0, full sphere)",
                           "Integrate_2D / Integrate_3D / partial angular defaults: positions %r of %r" % (bad, [fl(x) for x in t]))] if bad else [])
    if op in ("c13.asknown", "c13.asknownp"):      # same handling as fam1 / int1 (separate op name: known-finding replays)
        rq = rq.replace("c13.asknownp", "c13.int1", 1).replace("c13.asknown", "c13.fam1", 1)
        tk = rq.split(); op, a = tk[0], tk[1:]
    if op == "c13.sphfirst":
        return compare_sphfirst(rq, impl, model, ctx)
    fs, both = std_outcome(rq, impl, model)
    if op.startswith("c13.outcome"):
        ctx["nontrivial"].add((op, a[0], tag(model)))
        out = list(fs)
        return out
    if op == "c13.checklimits":
        if not both:
            return fs
        vi = [Fraction(fl(t)) for t in toks(impl)]; vm = [fr(t) for t in toks(model)]
        ctx["nontrivial"].add((op, fl(a[0]) > fl(a[1]), fl(a[0]) == fl(a[1])))
        return fs + ([] if vi == vm else [fail("prop", "Check_Integration_Limits does not order the limits / set the sign", "")])
    if op == "c13.findeps":
        if not both:
            return fs
        x1, x2, pr = Fraction(fl(a[0])), Fraction(fl(a[1])), Fraction(fl(a[2]))
        v, m = fl(toks(impl)[0]), fr(toks(model)[0])
        c = [Fraction(fl(t)) for t in a[4:]]
        pe = lambda x: sum(abs(ck) * abs(x) ** k for k, ck in enumerate(c))
        sc = abs(pr) * abs(x2 - x1) / 6 * (pe(x1) + 4 * pe((x1 + x2) / 2) + pe(x2))
        ctx["nontrivial"].add((op, len(c), x1 > x2))
        return fs + ([] if close(v, m, sc, 64) else [fail("prop", "Find_Epsilon is not precision * Simpson estimate", "%r vs %s" % (v, float(m)))])
    if op in ("c13.default1", "c13.sphdefault"):
        if tag(impl) != "ok":
            return fs or [fail("prop", "default-argument call failed", impl[:100])]
        t = toks(impl)
        ctx["nontrivial"].add((op,))
        return fs + ([] if t[0] == t[1] else [fail("prop", "default arguments are not (\"Gauss-Legendre\", 0, full sphere)", impl[:100])])

    # ---- integrals ---------------------------------------------------------------------------------------
    m, p = a[0], int(a[1])
    mc = m in MC
    if tag(impl) == "timeout":
        return [fail("prop", "integration does not terminate within the time limit", m)]
    if not both:
        return fs
    out = list(fs)
    ti = toks(impl)
    v, vn = fl(ti[0]), fl(ti[1])
    rel = Fraction(2, 100) if mc else REL.get(m, REL_DEFAULT)      # Monte-Carlo front ends: 2% (the seeds are pinned)
    key = (op, m, md.get("cls"), md.get("orient"), md.get("pc"))
    ctx["nontrivial"].add(key)
    if math.isnan(v) or math.isinf(v):
        return out + [fail("prop", "result is not finite", ti[0])]
    if not mc and ti[0] != ti[1] and op == "c13.sph":
        # The property fixes norm, polar angle and azimuth of the vector, not the spelling of its components: a vector
        # built another way differs by a few ulp per component.  The comparison with the Cartesian overload on
        # r^2 f(Spherical_Coordinates(r, acos c, phi)) is therefore judged at the rounding level of the integrand's
        # own conditioning (explicit Lipschitz bound of the generated family sum c r^i ct^j phi^k in (|v|, v_z/|v|,
        # atan2(v_y,v_x)) under perturbations d|v| <= u|v|, d ct <= u, d phi <= u, u = 8 * 2^-53) for the FIXED-NODE
        # rules; for adaptive rules an ulp can flip a refinement decision, so there only the accuracy clause decides.
        # A bitwise difference is a statistic.
        bump(ctx, "sph:not-bit-identical-to-the-Spherical_Coordinates-spelling")
        if m in ("Gauss-Legendre", "Gauss-Legendre_2"):
            Ls = [Fraction(fl(t)) for t in a[2:8]]
            ts_, _ = _parse_terms(a, 9)
            Rm = max(abs(Ls[0]), abs(Ls[1])); Pm = max(abs(Ls[4]), abs(Ls[5]), 1)
            vol = abs(Ls[1] - Ls[0]) * abs(Ls[3] - Ls[2]) * abs(Ls[5] - Ls[4])
            lip = sum(abs(c) * Rm ** (i + 2) * Pm ** k * (i + j + k + 1) for c, i, j, k in ts_) * vol
            told = 2 * 8 * EPS * lip
            _worst(ctx, "sph spelling diff/tol", float(abs(Fraction(v) - Fraction(vn)) / told) if told else 0.0)
            if abs(Fraction(v) - Fraction(vn)) > told:
                out.append(fail("prop", "spherical overload differs from the Cartesian overload on r^2 f(Spherical_Coordinates(r, acos c, phi))",
                                "%r vs %r (rounding-level tolerance %.3g)" % (v, vn, float(told))))
    elif not mc and ti[0] != ti[1]:
        what = {"c13.int1": "method_parameter 0 differs from the default call", "c13.fam1": "method_parameter 0 differs from the default call",
                "c13.sph": "spherical overload differs from the Cartesian overload on r^2 f(Spherical_Coordinates(r, acos c, phi))"}.get(
                    op, "Integrate_%s differs from the explicitly nested 1-D calls" % ("2D" if "2" in op else "3D"))
        out.append(fail("prop", what, "%r vs %r" % (v, vn)))
    if op in ("c13.int1", "c13.fam1"):
        x1, x2 = fl(a[2]), fl(a[3])
        lims = [(Fraction(x1), Fraction(x2))]
        calls = int(ti[2]); rec = [fl(t) for t in ti[3:5]]
        vr = fl(ti[5])
        if not (vr == -v):       # bit for bit (the sign of a zero is immaterial)
            out.append(fail("prop", "reversing the limits does not negate the result exactly", "%r vs reversed %r" % (v, vr)))
        if x1 == x2:
            if v != 0.0 or calls != 0:
                out.append(fail("prop", "equal limits do not give zero", repr(v)))
            return out
        if _ranges(rec, lims):
            out.append(fail("prop", "integrand evaluated outside the limits", "%r" % rec))
        if op == "c13.int1":
            ts, _ = _parse_terms(a, 4)
            ref = fr(toks(model)[0]); sc = _scale(ts, lims)
            if ref != _exact(ts, lims):
                out.append(fail("corr", "model value is not the exact integral (reference rule not exact?)", ""))
        else:
            f = _fams(a, 4, 1)[0]
            if not _judged(m, p, [f], [(x1, x2)], ctx):
                return out
            I, A, S = _fam_ref(f, x1, x2)
            ref = Fraction(float(I)) + Fraction(float(I - float(I))); sc = Fraction(float(A))
        d = abs(Fraction(v) - ref)
        tol1 = _tolerance(m, rel, ref, sc)
        _worst(ctx, "1D %s err/tol" % m, float(d / tol1) if tol1 else 0.0)
        if d > tol1:
            out.append(fail("prop", "1-D integral outside the method's accuracy", "%s: %r vs %.17g (scale %.3g)" % (m, v, float(ref), float(sc))))
        return out
    dim = 2 if op in ("c13.int2", "c13.fam2") else 3
    L = [fl(t) for t in a[2:2 + 2 * dim]]
    lims = [(Fraction(L[2 * i]), Fraction(L[2 * i + 1])) for i in range(dim)]
    pos = 2 + 2 * dim + 1
    if op == "c13.sph":
        calls = int(ti[3]); rec = [fl(t) for t in ti[4:10]]
        if fl(ti[2]) != 0.0:
            out.append(fail("prop", "spherical overload: integrand received a vector that is not 3-dimensional", ""))
        # norm = r, cos(polar angle) = cos_theta, azimuth = phi: each inside its own pair (to rounding)
        # the azimuth is recorded modulo 2 pi (representative next above the lower phi limit), on every vector off the polar axis
        chk = lims if not math.isinf(rec[4]) else lims[:2]
        # rounding only: 8 * 2^-53 relative to the magnitude of the quantity (norm ~ r, |cos theta| <= 1, |phi|)
        slack = [8 * EPS * max(abs(lo_), abs(hi_), 1) for lo_, hi_ in chk]
        if len(slack) == 3:
            slack[2] = 16 * EPS * max(abs(chk[2][0]), abs(chk[2][1]), 7)      # atan2 + the 2 pi shift
        bad = _ranges(rec, chk, slack)
        if bad:
            out.append(fail("prop", "spherical overload: norm/polar angle/azimuth of the vectors are not the integration variables",
                            "axes %r recorded %r" % (bad, rec)))
    else:
        calls = int(ti[2]); rec = [fl(t) for t in ti[3:3 + 2 * dim]]
        bad = _ranges(rec, lims)
        if bad:
            out.append(fail("prop", "an argument of the integrand does not receive the variable of its own pair of limits",
                            "axes %r recorded %r limits %r" % (bad, rec, L)))
    if calls <= 0 and all(lo_ != hi_ for lo_, hi_ in lims):
        out.append(fail("prop", "integrand never evaluated", ""))
    if op in ("c13.int2", "c13.int3", "c13.sph"):
        ts, _ = _parse_terms(a, pos)
        ref = fr(toks(model)[0])
        if op == "c13.sph":
            ts2 = [(c, i + 2, j, k) for c, i, j, k in ts]
            ex = _exact(ts2, lims); sc = _scale(ts2, lims)
            if md.get("cls") == "full" and not mc:
                # 4 pi * radial integral (model: 2 * (phi2 - phi1) * radial with phi2 - phi1 = the double 2 pi)
                rad = _exact([(c, i + 2, 0, 0) for c, i, j, k in ts], lims[:1])
                if abs(Fraction(v) - 4 * Fraction(math.pi) * rad) > _tolerance(m, rel, ex, sc):
                    out.append(fail("prop", "full sphere: result is not 4 pi times the radial integral of r^2 f", "%r" % v))
        else:
            ex = _exact(ts, lims); sc = _scale(ts, lims)
        if ref != ex:
            out.append(fail("corr", "model value is not the exact iterated integral (reference rule not exact?)", "%s vs %s" % (float(ref), float(ex))))
    else:
        fams = _fams(a, pos, dim)
        if not _judged(m, p, fams, [(L[2 * i], L[2 * i + 1]) for i in range(dim)], ctx):
            return out
        ref, sc = Fraction(1), Fraction(1)
        for f, (x1, x2) in zip(fams, [(L[2 * i], L[2 * i + 1]) for i in range(dim)]):
            I, A, S = _fam_ref(f, x1, x2)
            ref *= Fraction(float(I)) + Fraction(float(I - float(I)))
            sc *= Fraction(float(A))
        rel = rel * dim
    d = abs(Fraction(v) - ref)
    toln = _tolerance(m, rel, ref, sc)
    _worst(ctx, "%dD %s %s err/tol" % (dim, m, op[4:]), float(d / toln) if toln else 0.0)
    if d > toln:
        clause = ("Monte-Carlo front end: result is not the integral over the box of the given limits" if mc else
                  "spherical overload: result is not the integral of r^2 f over the shell segment" if op == "c13.sph" else
                  "separable integrand: result is not the product of the 1-D integrals" if op.startswith("c13.fam") else
                  "nested integral outside the method's accuracy of the exact iterated integral")
        out.append(fail("prop", clause, "%s: %r vs %.17g (scale %.3g)" % (m, v, float(ref), float(sc))))
    return out


def oracle_only(rq, impl, ctx):
    """property oracle without the Lean driver: the exact references are recomputed here"""
    tk = rq.split()
    op, a = tk[0], tk[1:]
    if op in ("c13.selftest", "c13.checklimits", "c13.findeps"):
        return []
    if op == "c13.nest":
        return []      # needs the model's exact value: covered when the Lean side builds
    if op in ("c13.default1", "c13.sphdefault", "c13.seq", "c13.neg", "c13.sphfirst", "c13.sweep", "c13.sphrad", "c13.default23", "c13.asknown"):
        model = "ok"
    elif op == "c13.asknownp":
        return []
    elif op.startswith("c13.outcome"):
        nm = a[0]
        if op == "c13.outcome1":
            known = nm in METHODS
        elif op == "c13.outcomemc":
            known = nm in MC
        else:
            known = nm in METHODS or nm in MC
        model = "ok" if known else "err"
    else:
        nm = a[0]
        if not (nm in METHODS or (nm in MC and op != "c13.int1" and op != "c13.fam1")):
            model = "err"
        elif op.startswith("c13.fam"):
            model = "ok"
        else:
            dim = {"c13.int1": 1, "c13.int2": 2, "c13.int3": 3, "c13.sph": 3}[op]
            L = [Fraction(fl(t)) for t in a[2:2 + 2 * dim]]
            lims = [(L[2 * i], L[2 * i + 1]) for i in range(dim)]
            ts, _ = _parse_terms(a, 2 + 2 * dim + (0 if dim == 1 else 1))
            if op == "c13.sph":
                ts = [(c, i + 2, j, k) for c, i, j, k in ts]
            ex = _exact(ts, lims)
            model = "ok %d/%d" % (ex.numerator, ex.denominator)
    return [f for f in compare(rq, impl, model, ctx) if f["kind"] == "prop"]


def finalize(ctx, exe):
    if os.environ.get("C13_CALIB"):
        for k, v in sorted(ctx.get("worst", {}).items()):
            print("  calib %-40s %.4g" % (k, v), file=sys.stderr)
    ctx["stats"].update({"worst:" + k: float("%.3g" % v) for k, v in ctx.get("worst", {}).items()})
    return []
