"""C13 — named 1-D methods and nested multi-dimensional integrals agree with analysis."""
import math, os, random, sys
from fractions import Fraction
from common import *

try:
    import mpmath
    mpmath.mp.dps = 25
except ImportError:   # check.py re-executes under python3-vt, which carries mpmath
    mpmath = None

RULE = ("every method name x {1-D, 2-D, 3-D, spherical} x integrand class (non-symmetric polynomial terms, damped "
        "oscillation / rational / Gaussian products) x orientation of every limit pair x method_parameter (0, explicit), "
        "drawn from VERIF_SEED; a case is non-trivial when the model answers ok/err and is counted once per distinct "
        "(op, method, orientation pattern, parameter class, integrand class) key")
CORR_ONLY = ["accuracy of the Boost rules (trapezoidal, gauss<30>, gauss_kronrod<31>, tanh_sinh) and of the library's own "
             "Gauss-Legendre / adaptive Simpson on the smooth families: 1e-9 relative to the integral of |f| (Trapezoidal 1e-6), "
             "against exact rational integrals (polynomials, through the model's wrappers) and mpmath.quad (other families)",
             "Monte-Carlo front ends: value within 10% (statistical), arguments inside their own limit pair exactly",
             "spherical overload: norm / polar angle / azimuth of the vectors handed to the integrand are read off the vectors "
             "(C16 proves the Spherical_Coordinates algebra)"]
ASSUMPTIONS = ["the model's 1-D rule is the exact 17-point Newton-Cotes rule (exact to degree 17): the model value for a polynomial "
               "integrand is the exact iterated integral through the coded wrappers (validated by the driver self-test)",
               "'1e-9 relative' is judged relative to |I| (the exact integral) for Gauss-Legendre, Gauss-Kronrod, Tanh-Sinh, Gauss-Legendre_2 and "
               "Adaptive-Simpson, plus the rounding floor 256 * 2^-53 * (integral of |f| resp. sum of |terms|); '1e-6' of Trapezoidal is judged "
               "relative to the integral of |f|: relative to |I| it fails for damped oscillations with cancelling I (audit probe: 600 of 3000 "
               "runs, worst 3.8e-4) - an interpretation of 'relative', not a tolerance",
               "Trapezoidal: Boost stops after 2048 panels, the leading Euler-Maclaurin term bounds the error by 0.89e-6 * integral |f| "
               "on the whole damped-oscillation domain (<= 2 periods, damping <= e^-2), so 1e-6 is met with ~10% margin"]
TRUSTED = ["mpmath.quad (30 digits) as reference for the non-polynomial families",
           "harness interposes std::random_device::_M_getval so that the Monte-Carlo front ends are reproducible"]

METHODS = ["Trapezoidal", "Gauss-Legendre", "Gauss-Kronrod", "Tanh-Sinh", "Gauss-Legendre_2", "Adaptive-Simpson"]
MC = ["Monte-Carlo", "Vegas", "Miser"]
BOGUS = ["gauss-legendre", "Simpson", "Gauss-Legendre_3", "MonteCarlo", "vegas", "x", "Trapezoidal_", "Gauss"]
REL = {"Trapezoidal": Fraction(1, 10 ** 6)}
REL_DEFAULT = Fraction(1, 10 ** 9)


def _param(rng, m, degree):
    """explicit method_parameter values that keep the method accurate on the integrand"""
    if m == "Gauss-Kronrod":
        return rng.choice([3, 5, 8])
    if m == "Gauss-Legendre_2":   # odd and even numbers of evaluation points
        return rng.choice([n for n in (3, 5, 7, 8, 9, 12, 13, 16, 25, 31, 40, 41) if 2 * n - 1 >= degree] or [41])
    return rng.choice([1, 7])      # ignored by the method


def _pair(rng, lo, hi, orient):
    a = round(rng.uniform(lo, hi - 0.5), 3)
    b = round(rng.uniform(a + 0.3, hi), 3)
    return (a, b) if orient == 0 else (b, a)


def _disjoint_pairs(rng, d, orient):
    """d limit pairs in pairwise disjoint ranges (so that a variable handed to the wrong argument is visible)"""
    bands = [(-4.0, -1.5), (-1.0, 1.2), (1.5, 4.0), (4.5, 7.0)]
    rng.shuffle(bands)
    return [_pair(rng, bands[i][0], bands[i][1], (orient >> i) & 1) for i in range(d)]


def _terms(ts):
    return "%d %s" % (len(ts), " ".join("%s %d %d %d" % (hx(c), i, j, k) for c, i, j, k in ts))


def _rterms(rng, dims, maxdeg, n=None):
    n = n or rng.randint(1, 3)
    ts = []
    for _ in range(n):
        e = [rng.randint(0, maxdeg[i]) if i < dims else 0 for i in range(3)]
        ts.append((float(rng.choice([-3, -2, -1, 1, 2, 3, 5])) / rng.choice([1, 2, 4]), e[0], e[1], e[2]))
    return ts


def _fam(rng, a, b):
    """(id, p0, p1, p2) adapted to the interval [a,b] (either order)"""
    lo, hi = min(a, b), max(a, b)
    L = hi - lo
    k = rng.randint(0, 2)
    if k == 0:   # exponentially damped oscillation, up to two periods over the interval
        lam = rng.uniform(0.1, 2.0) / L
        om = 2 * math.pi * rng.uniform(0.2, 2.0) / L
        return (0, lam, om, rng.uniform(0, 1.0) - om * lo)
    if k == 1:   # rational (Lorentzian, width comparable with the interval) plus offset
        return (1, rng.uniform(0.5, 6.0) / L ** 2, rng.uniform(lo, hi), rng.uniform(0.1, 1.0))
    return (2, rng.uniform(lo, hi), rng.uniform(0.25, 1.0) * L, rng.uniform(0.1, 1.0))


_GLCACHE = {}


def _gl_rule(n):
    """exact n-point Gauss-Legendre rule on [-1,1] (mpmath, Newton on the Legendre recurrence) - an
    independent reference used only to decide where an n-point rule CAN reach the method's accuracy"""
    if n in _GLCACHE:
        return _GLCACHE[n]
    mp = mpmath.mp
    xs, ws = [], []
    for i in range(n):
        z = mpmath.cos(mp.pi * (i + mpmath.mpf(3) / 4) / (n + mpmath.mpf(1) / 2))
        for _ in range(100):
            p1, p2 = mpmath.mpf(1), mpmath.mpf(0)
            for j in range(n):
                p1, p2 = ((2 * j + 1) * z * p1 - j * p2) / (j + 1), p1
            pp = n * (z * p1 - p2) / (z * z - 1)
            dz = p1 / pp
            z -= dz
            if abs(dz) < mpmath.mpf(10) ** -22:
                break
        xs.append(z); ws.append(2 / ((1 - z * z) * pp * pp))
    _GLCACHE[n] = (xs, ws)
    return xs, ws


def _gl_reaches(f, a, b, n, frac=Fraction(1, 10)):
    """does the exact n-point rule integrate family member f over [a,b] within frac * 1e-9 * |I| ?"""
    if mpmath is None:
        return False
    xs, ws = _gl_rule(n)
    g = _mpfam(f)
    lo, hi = min(a, b), max(a, b)
    mid, h = mpmath.mpf(lo + hi) / 2, mpmath.mpf(hi - lo) / 2
    q = h * sum(w * g(mid + h * x) for x, w in zip(xs, ws))
    I, A, S = _fam_ref(f, lo, hi)
    return abs(q - I) <= float(frac) * 1e-9 * abs(I)


def _famstr(f):
    return "%d %s %s %s" % (f[0], hx(f[1]), hx(f[2]), hx(f[3]))


def generate(tier, seed, ctx):
    rng = random.Random(seed * 7919 + 13)
    thorough = tier == "thorough"
    rep = 3 if thorough else 1
    R = ["c13.selftest"]
    meta = {}

    def add(rq, **kw):
        R.append(rq)
        meta[rq] = kw

    for m in METHODS:
        # ---- 1-D ------------------------------------------------------------------------------
        for t in range(8 * rep):
            orient = t % 2
            a, b = _pair(rng, -5, 5, orient)
            deg = rng.randint(0, 8 if m == "Trapezoidal" else 12)
            ts = [(c, i, 0, 0) for c, i, _, _ in _rterms(rng, 1, [deg, 0, 0], rng.randint(1, 4))] + [(1.0, deg, 0, 0)]
            p = 0 if t % 4 < 2 else _param(rng, m, deg)
            add("c13.int1 %s %d %s %s %s" % (m, p, hx(a), hx(b), _terms(ts)), cls="poly", orient=orient, pc=p != 0)
        for t in range(2):
            a = rng.uniform(-3, 3)
            add("c13.int1 %s 0 %s %s %s" % (m, hx(a), hx(a), _terms([(1.0, 2, 0, 0)])), cls="equal", orient=0, pc=False)
        for t in range(9 * rep):
            orient = t % 2
            a, b = _pair(rng, -5, 5, orient)
            f = _fam(rng, a, b)
            if t % 3 != f[0] and t < 6:
                f = _fam(rng, a, b)
            p = 0 if t % 3 else _param(rng, m, 59)
            if m == "Gauss-Legendre_2" and p:
                p = 40
            add("c13.fam1 %s %d %s %s %s" % (m, p, hx(a), hx(b), _famstr(f)), cls="fam%d" % f[0], orient=orient, pc=p != 0)
        # ---- 2-D ------------------------------------------------------------------------------
        for orient in range(4):
            for t in range(rep + 1):
                (x1, x2), (y1, y2) = _disjoint_pairs(rng, 2, orient)
                if t == 0:
                    ts = [(1.0, 1, 2, 0)] if orient % 2 == 0 else [(1.0, 1, 0, 0), (2.0, 0, 1, 0)]
                else:
                    ts = _rterms(rng, 2, [3, 4, 0]) + [(1.0, 1, 2, 0)]
                if m == "Trapezoidal":   # cost: keep the outer variable linear
                    ts = [(c, min(i, 1), j, k) for c, i, j, k in ts]
                deg = max(max(i, j) for _, i, j, _ in ts)
                p = 0 if (orient + t) % 2 == 0 else _param(rng, m, deg)
                add("c13.int2 %s %d %s %s %s %s 1 %s" % (m, p, hx(x1), hx(x2), hx(y1), hx(y2), _terms(ts)),
                    cls="poly", orient=orient, pc=p != 0)
        nf2 = {"Trapezoidal": 1, "Adaptive-Simpson": 1}.get(m, 3) * rep
        for t in range(nf2):
            orient = rng.randrange(4)
            (x1, x2), (y1, y2) = _disjoint_pairs(rng, 2, orient)
            g, h = _fam(rng, x1, x2), _fam(rng, y1, y2)
            add("c13.fam2 %s 0 %s %s %s %s 1 %s %s" % (m, hx(x1), hx(x2), hx(y1), hx(y2), _famstr(g), _famstr(h)),
                cls="fam", orient=orient, pc=False)
        # ---- 3-D ------------------------------------------------------------------------------
        cheap = m in ("Trapezoidal", "Adaptive-Simpson")
        for orient in range(8):     # the full orientation cross product of the three limit pairs
            if m == "Tanh-Sinh" and not thorough and orient not in (0, 7, [3, 5, 6][seed % 3]):
                continue                # (cost: ~0.6 s each; the eight patterns are met with the other five methods)
            (x1, x2), (y1, y2), (z1, z2) = _disjoint_pairs(rng, 3, orient)
            if orient % 2 == 0 or cheap:
                ts = [(1.0, 1, 0, 0), (2.0, 0, 1, 0), (3.0, 0, 0, 1)]
                if m == "Adaptive-Simpson":
                    ts = ts + [(1.0, 1, 2, 3)]      # Simpson is exact on cubics: still cheap
            else:
                ts = _rterms(rng, 3, [2, 3, 4]) + [(1.0, 1, 2, 3)]
            p = 0 if orient % 4 < 2 else _param(rng, m, 4)
            add("c13.int3 %s %d %s %s %s %s %s %s 1 %s" % (m, p, hx(x1), hx(x2), hx(y1), hx(y2), hx(z1), hx(z2), _terms(ts)),
                cls="poly", orient=orient, pc=p != 0)
        if not cheap:
            for t in range(rep):
                orient = rng.randrange(8)
                (x1, x2), (y1, y2), (z1, z2) = _disjoint_pairs(rng, 3, orient)
                g, h, k = _fam(rng, x1, x2), _fam(rng, y1, y2), _fam(rng, z1, z2)
                add("c13.fam3 %s 0 %s %s %s %s %s %s 1 %s %s %s" % (m, hx(x1), hx(x2), hx(y1), hx(y2), hx(z1), hx(z2),
                                                                 _famstr(g), _famstr(h), _famstr(k)), cls="fam", orient=orient, pc=False)
        # ---- spherical overload ---------------------------------------------------------------------
        for t in range(2 * rep if (thorough or m not in ("Trapezoidal", "Tanh-Sinh")) else 1):      # full sphere: 4 pi * radial integral
            orient = (t + seed) % 2
            r1, r2 = _pair(rng, 0.2, 3.0, orient)
            ts = [(float(rng.choice([1, 2, 3])), rng.randint(0, 1 if cheap else 4), 0, 0), (0.5, 0, 0, 0)]
            p = 0 if t < 1 else _param(rng, m, 6)
            add("c13.sph %s %d %s %s %s %s %s %s 1 %s" % (m, p, hx(r1), hx(r2), hx(-1.0), hx(1.0), hx(0.0), hx(2 * math.pi), _terms(ts)),
                cls="full", orient=orient, pc=p != 0)
        # angular sub-ranges, the integrand depends on all three spherical coordinates: the FULL orientation cross
        # product of (r, cos theta, phi) - reversing any subset of the pairs multiplies the result by the product of signs
        # (quick tier, the two expensive methods: the three patterns with exactly two reversed pairs)
        if thorough or m not in ("Trapezoidal", "Tanh-Sinh"):
            pats = list(range(8))
        else:
            # quick tier, the two expensive methods: ONE pattern with exactly two reversed pairs, rotating with the seed
            # (all eight patterns are met with the four cheaper methods in quick and with every method in thorough)
            pats = [[3, 5, 6][(seed + (m == "Tanh-Sinh")) % 3]]
        for orient in pats:
            r1, r2 = _pair(rng, 0.2, 3.0, orient & 1)
            c1, c2 = _pair(rng, -0.95, 0.95, (orient >> 1) & 1)
            f1, f2 = _pair(rng, -3.0, 3.0, (orient >> 2) & 1)
            md = [1, 1, 1] if cheap else [3, 3, 2]
            ts = _rterms(rng, 3, md, 2) + [(1.0, 1, 1, 1), (4.0, 0, 0, 0)]
            p = 0 if orient % 2 == 0 else _param(rng, m, 6)
            add("c13.sph %s %d %s %s %s %s %s %s 1 %s" % (m, p, hx(r1), hx(r2), hx(c1), hx(c2), hx(f1), hx(f2), _terms(ts)),
                cls="sub", orient=orient, pc=p != 0)
        # axes of EQUAL width at different positions (distinct limits per axis, bit-identical widths)
        for t in range(rep + 1):
            w = rng.choice([1.0, 0.5, 2.0])
            px, py, pz = rng.sample([-4.0, -2.0, 0.0, 2.0, 4.0], 3)
            orient = rng.randrange(8)
            X, Y, Z = [((q, q + w) if not (orient >> i) & 1 else (q + w, q)) for i, q in enumerate((px, py, pz))]
            ts2 = [(1.0, 1, 2, 0), (3.0, 0, 0, 0)] if m != "Trapezoidal" else [(1.0, 1, 2, 0), (3.0, 0, 0, 0)]
            p = 0 if t % 2 == 0 else _param(rng, m, 3)
            add("c13.int2 %s %d %s %s %s %s 1 %s" % (m, p, hx(X[0]), hx(X[1]), hx(Y[0]), hx(Y[1]), _terms(ts2)),
                cls="poly-eqw", orient=orient & 3, pc=p != 0)
            ts3 = [(1.0, 1, 0, 0), (2.0, 0, 1, 0), (3.0, 0, 0, 1)] + ([] if m == "Trapezoidal" else [(1.0, 1, 2, 3)])
            add("c13.int3 %s %d %s %s %s %s %s %s 1 %s" % (m, p, hx(X[0]), hx(X[1]), hx(Y[0]), hx(Y[1]), hx(Z[0]), hx(Z[1]), _terms(ts3)),
                cls="poly-eqw", orient=orient, pc=p != 0)
        if m == "Gauss-Legendre_2":      # exp(-x)/(1+y^2) on [0,1] x [2,3]
            for p in (0, 31, 8):
                add("c13.fam2 %s %d %s %s %s %s 1 %s %s" % (m, p, hx(0.0), hx(1.0), hx(2.0), hx(3.0), _famstr((0, 1.0, 0.0, 0.0)),
                                                           _famstr((1, 1.0, 0.0, 0.0))), cls="fam-eqw", orient=0, pc=p)
    # ---- Adaptive-Simpson on rational bumps (fix ad02385: Find_Epsilon precision 1e-10) -------------------
    # the request that missed 1e-9 relative before the fix (2.8e-9), then a deterministic family of the same kind:
    # Lorentzian of width ~ interval, peak near an end / at the centre, plus an offset
    orig = (1, 8.386010451258915, 2.667224418300612, 0.3759869620238562)
    for p, (a, b) in ((0, (2.113, 2.755)), (1, (2.113, 2.755)), (0, (2.755, 2.113))):
        add("c13.fam1 Adaptive-Simpson %d %s %s %s" % (p, hx(a), hx(b), _famstr(orig)), cls="bump-orig", orient=int(a > b), pc=p != 0)
    for (a, b) in ((2.113, 2.755), (-1.0, 0.5)):
        L = b - a
        for w in (1.5, 3.456, 6.0):
            for pos in (0.137, 0.5, 0.863):
                for off in ((0.3759869620238562, 0.1) if thorough else (0.3759869620238562,)):
                    f = (1, w / L ** 2, a + pos * L, off)
                    add("c13.fam1 Adaptive-Simpson 0 %s %s %s" % (hx(a), hx(b), _famstr(f)), cls="bump", orient=0, pc=False)
    # ---- Gauss-Legendre_2 with explicit ODD numbers of evaluation points (the central node of an odd rule) -----
    m = "Gauss-Legendre_2"
    for n in (3, 5, 7, 25, 31, 41):
        deg = min(2 * n - 1, 12)
        for orient in (0, 1):
            a, b = _pair(rng, -5, 5, orient)
            ts = [(c, i, 0, 0) for c, i, _, _ in _rterms(rng, 1, [deg, 0, 0], 3)] + [(1.0, deg, 0, 0), (2.0, 0, 0, 0)]
            add("c13.int1 %s %d %s %s %s" % (m, n, hx(a), hx(b), _terms(ts)), cls="poly-odd", orient=orient, pc=n)
        orient = rng.randrange(4)
        (x1, x2), (y1, y2) = _disjoint_pairs(rng, 2, orient)
        d2 = min(2 * n - 1, 4)
        ts = _rterms(rng, 2, [d2, d2, 0]) + [(1.0, min(d2, 1), min(d2, 2), 0), (3.0, 0, 0, 0)]
        add("c13.int2 %s %d %s %s %s %s 1 %s" % (m, n, hx(x1), hx(x2), hx(y1), hx(y2), _terms(ts)), cls="poly-odd", orient=orient, pc=n)
        if n in (3, 7, 31):
            orient = rng.randrange(8)
            (x1, x2), (y1, y2), (z1, z2) = _disjoint_pairs(rng, 3, orient)
            ts = _rterms(rng, 3, [d2, d2, d2]) + [(1.0, 1, 2, min(d2, 3)), (3.0, 0, 0, 0)]
            add("c13.int3 %s %d %s %s %s %s %s %s 1 %s" % (m, n, hx(x1), hx(x2), hx(y1), hx(y2), hx(z1), hx(z2), _terms(ts)),
                cls="poly-odd", orient=orient, pc=n)
            r1, r2 = _pair(rng, 0.2, 3.0, orient & 1)
            c1, c2 = _pair(rng, -0.95, 0.95, (orient >> 1) & 1)
            f1, f2 = _pair(rng, -3.0, 3.0, (orient >> 2) & 1)
            ts = _rterms(rng, 3, [min(d2, 2), d2, d2], 2) + [(1.0, 1, 1, 1), (2.0, 0, 0, 0)]
            add("c13.sph %s %d %s %s %s %s %s %s 1 %s" % (m, n, hx(r1), hx(r2), hx(c1), hx(c2), hx(f1), hx(f2), _terms(ts)),
                cls="sub-odd", orient=orient, pc=n)
    # smooth families: an odd n is used where the EXACT n-point rule reaches a tenth of the method's accuracy
    for t in range(8 * rep):
        orient = t % 2
        a, b = _pair(rng, -5, 5, orient)
        f = _fam(rng, a, b)
        ok = [n for n in (5, 7, 9, 13, 25, 31, 41) if _gl_reaches(f, a, b, n)]
        if not ok:
            continue
        n = ok[0] if t % 2 else rng.choice(ok)     # the smallest sufficient odd rule every other time
        add("c13.fam1 %s %d %s %s %s" % (m, n, hx(a), hx(b), _famstr(f)), cls="fam%d-odd" % f[0], orient=orient, pc=n)
        if t % 4 == 0:
            (x1, x2), (y1, y2) = _disjoint_pairs(rng, 2, rng.randrange(4))
            g, h = _fam(rng, x1, x2), _fam(rng, y1, y2)
            ok2 = [k for k in (25, 31, 41) if _gl_reaches(g, x1, x2, k) and _gl_reaches(h, y1, y2, k)]
            if ok2:
                add("c13.fam2 %s %d %s %s %s %s 1 %s %s" % (m, ok2[0], hx(x1), hx(x2), hx(y1), hx(y2), _famstr(g), _famstr(h)),
                    cls="fam-odd", orient=0, pc=ok2[0])
    # ---- histories in one process (theorem int_history_independent) ---------------------------------------------
    # coarse explicit Gauss-Legendre_2 call, then a finer/default call on IDENTICAL limits; mixed with other methods
    # and limits; 2-D nested calls after a coarse 1-D call on the inner / outer limits
    G = "Gauss-Legendre_2"
    def m1(meth, p, a, b, f):
        return "1 %s %d %s %s %s" % (meth, p, hx(a), hx(b), _famstr(f))
    def m2(meth, p, x1, x2, y1, y2, g, h):
        return "2 %s %d %s %s %s %s %s %s" % (meth, p, hx(x1), hx(x2), hx(y1), hx(y2), _famstr(g), _famstr(h))
    def seq(mem):
        add("c13.seq %d %s" % (len(mem), " ".join(mem)), cls="seq")
    osc = (0, 1.0, 2 * math.pi, 0.0)                 # exp(-x) cos(2 pi x) on [0,2]
    for (p1, p2) in ((4, 0), (3, 30), (5, 41), (30, 4), (4, 31), (0, 4)):
        seq([m1(G, p1, 0.0, 2.0, osc), m1(G, p2, 0.0, 2.0, osc)])
    for (p1, p2) in ((0, 0), (31, 31), (8, 8)):       # same parameter, equal width, different position
        e1, l1 = (0, 1.0, 0.0, 0.0), (1, 1.0, 0.0, 0.0)
        seq([m1(G, p1, 0.0, 1.0, e1), m1(G, p2, 2.0, 3.0, l1), m1(G, p2, -1.0, 0.0, e1)])
        seq([m1(G, p1, 2.0, 3.0, l1), m2(G, p2, 0.0, 1.0, 2.0, 3.0, e1, l1)])
    for t in range(3 * rep):
        a, b = _pair(rng, -5, 5, 0)
        f, g2 = _fam(rng, a, b), _fam(rng, a, b)
        c, d = _pair(rng, -5, 5, t % 2)
        h = _fam(rng, c, d)
        other = rng.choice(["Tanh-Sinh", "Gauss-Legendre", "Gauss-Kronrod", "Adaptive-Simpson"])
        coarse = rng.choice([3, 4, 5, 7])
        fine = rng.choice([0, 30, 41, 25])
        seq([m1(G, coarse, a, b, f), m1(G, fine, a, b, f)])
        seq([m1(G, coarse, a, b, f), m1(G, fine, b, a, g2)])                      # reversed limits, other integrand
        seq([m1(G, coarse, a, b, f), m1(other, 0, a, b, f), m1(G, fine, a, b, g2)])  # another method in between
        seq([m1(G, coarse, a, b, f), m1(G, fine, c, d, h), m1(G, fine, a, b, f)])    # other limits in between
        seq([m1(other, 0, a, b, f), m1(G, fine, a, b, f), m1(G, coarse, a, b, f), m1(other, 0, c, d, h)])
        (x1, x2), (y1, y2) = _disjoint_pairs(rng, 2, rng.randrange(4))
        gx, hy = _fam(rng, x1, x2), _fam(rng, y1, y2)
        seq([m1(G, coarse, y1, y2, hy), m2(G, fine, x1, x2, y1, y2, gx, hy)])     # coarse call on the inner limits first
        seq([m1(G, coarse, x1, x2, gx), m2(G, fine, x1, x2, y1, y2, gx, hy)])     # ... on the outer limits first
        seq([m2(G, coarse, x1, x2, y1, y2, gx, hy), m2(G, fine, x1, x2, y1, y2, gx, hy), m1(G, fine, y1, y2, hy)])
    # ---- Gauss-Kronrod with explicit bisection depths on sharp peaks (the depth must be honoured, not capped) -------
    # Lorentzians 1/(1+((x-c)/w)^2), w = 1e-2 ... 1e-6 (heavy tails: the peak is seen at every level), peak inside / at the
    # midpoint / at an edge, and Gaussians with sigma >= 1e-3 at the midpoint or an edge; depths {default,5,10,12,15,20,25}.
    # The accuracy clause is judged where the depth suffices (see _gk_depth_needed); also in the Integrate_2D product clause.
    K = "Gauss-Kronrod"
    depths = [0, 5, 10, 12, 15, 20, 25]
    for e in range(2, 7):
        for d in depths:
            a = round(rng.uniform(-1.0, -0.2), 3); b = round(rng.uniform(0.5, 1.5), 3)
            w = 10.0 ** (-e + rng.uniform(-0.4, 0.4))
            pos = rng.choice(["in", "mid", "lo", "hi"])
            c = {"in": rng.uniform(a + 0.1, b - 0.1), "mid": (a + b) / 2, "lo": a, "hi": b}[pos]
            if (e + d) % 3 == 0:
                a, b = b, a
            add("c13.fam1 %s %d %s %s %s" % (K, d, hx(a), hx(b), _famstr((1, 1.0 / (w * w), c, 0.0))),
                cls="sharp-lorentz-%s" % pos, orient=int(a > b), pc=d)
    for d in (10, 15, 25):
        a = round(rng.uniform(-1.0, -0.2), 3); b = round(rng.uniform(0.5, 1.5), 3)
        sg = 10.0 ** rng.uniform(-3, -2)
        c = rng.choice([(a + b) / 2, a, b])
        add("c13.fam1 %s %d %s %s %s" % (K, d, hx(a), hx(b), _famstr((2, c, sg, 0.0))), cls="sharp-gauss", orient=0, pc=d)
    for t, (d, e) in enumerate(((15, 4), (20, 4), (12, 3), (20, 5)) if not thorough else ((15, 4), (20, 4), (12, 3), (20, 5), (25, 5), (15, 3), (25, 6), (10, 2))):
        (x1, x2), (y1, y2) = _disjoint_pairs(rng, 2, rng.randrange(4))
        w = 10.0 ** (-e + rng.uniform(-0.3, 0.3))
        sharp_ax = t % 2
        lo_, hi_ = (min(x1, x2), max(x1, x2)) if sharp_ax == 0 else (min(y1, y2), max(y1, y2))
        fs_ = (1, 1.0 / (w * w), rng.uniform(lo_ + 0.05, hi_ - 0.05), 0.0)
        fm_ = _fam(rng, y1, y2) if sharp_ax == 0 else _fam(rng, x1, x2)
        g, h = (fs_, fm_) if sharp_ax == 0 else (fm_, fs_)
        add("c13.fam2 %s %d %s %s %s %s 1 %s %s" % (K, d, hx(x1), hx(x2), hx(y1), hx(y2), _famstr(g), _famstr(h)),
            cls="sharp-2d", orient=0, pc=d)
    # ---- reversing the limits of one axis negates the result exactly (2-D, 3-D; the 1-D requests carry it themselves) ----
    for m in METHODS:
        slow = m in ("Trapezoidal", "Adaptive-Simpson")
        for t in range(2 * rep):
            (x1, x2), (y1, y2), (z1, z2) = _disjoint_pairs(rng, 3, rng.randrange(8))
            if slow:    # quadratic/linear factors keep the nested cost small
                fx, fy, fz = [(3, float(rng.randint(1, 3)), float(rng.randint(-2, 2)), 0.0 if m == "Trapezoidal" else 0.5) for _ in range(3)]
                if t % 2 == 0:
                    fy = _fam(rng, y1, y2)
            else:
                fx, fy, fz = _fam(rng, x1, x2), _fam(rng, y1, y2), _fam(rng, z1, z2)
            add("c13.neg 2 %s 0 %s %s %s %s %s %s" % (m, hx(x1), hx(x2), hx(y1), hx(y2), _famstr(fx), _famstr(fy)), cls="neg2")
            if not (slow and t % 2 == 0) and not (m == "Tanh-Sinh" and not thorough and t > 0):
                add("c13.neg 3 %s 0 %s %s %s %s %s %s %s %s %s" % (m, hx(x1), hx(x2), hx(y1), hx(y2), hx(z1), hx(z2),
                                                                _famstr(fx), _famstr(fy), _famstr(fz)), cls="neg3")
    # ---- Monte-Carlo front ends --------------------------------------------------------------------
    for m in MC:
        for t in range(2 * rep):
            (x1, x2), (y1, y2), (z1, z2) = _disjoint_pairs(rng, 3, 0)
            p = 0 if t % 2 == 0 else 20000
            sd = rng.randint(1, 10 ** 6)
            # positive integrands with moderate variation: 10 + x + 2y (+ 3z) with |x|,|y|,|z| <= 7 would change sign: square terms
            add("c13.int2 %s %d %s %s %s %s %d %s" % (m, p, hx(x1), hx(x2), hx(y1), hx(y2), sd,
                                                     _terms([(1.0, 2, 0, 0), (2.0, 0, 2, 0), (1.0, 1, 1, 0), (30.0, 0, 0, 0)])),
                cls="mc", orient=0, pc=p != 0)
            add("c13.int3 %s %d %s %s %s %s %s %s %d %s" % (m, p, hx(x1), hx(x2), hx(y1), hx(y2), hx(z1), hx(z2), sd,
                                                           _terms([(1.0, 2, 0, 0), (2.0, 0, 2, 0), (3.0, 0, 0, 2), (40.0, 0, 0, 0)])),
                cls="mc", orient=0, pc=p != 0)
        r1, r2 = _pair(rng, 0.5, 2.0, 0)
        add("c13.sph %s 0 %s %s %s %s %s %s %d %s" % (m, hx(r1), hx(r2), hx(-0.5), hx(0.75), hx(-1.0), hx(2.0), rng.randint(1, 10 ** 6),
                                                     _terms([(1.0, 1, 0, 0), (2.0, 0, 0, 0)])), cls="mc", orient=0, pc=False)
    # ---- unknown method names at every level (class A) ---------------------------------------------------
    for nm in BOGUS + MC:
        add("c13.outcome1 %s %s %s" % (nm, hx(0.0), hx(1.0)), cls="bad1")
    for nm in BOGUS[:3]:
        add("c13.outcome1 %s %s %s" % (nm, hx(1.5), hx(1.5)), cls="bad1eq")     # unknown name on a degenerate interval: diagnostic (fix d39b5c1)
    for nm in BOGUS + METHODS[:2] + MC[:1]:
        add("c13.outcome2 %s" % nm, cls="bad2")
        add("c13.outcome3 %s" % nm, cls="bad3")
        add("c13.outcomesph %s" % nm, cls="badsph")
        add("c13.outcomemc %s" % nm, cls="badmc")
    # ---- helpers ------------------------------------------------------------------------------------------
    for t in range(30 * rep):
        a, b = dyadic(rng, -8, 8, 3), dyadic(rng, -8, 8, 3)
        add("c13.checklimits %s %s" % (hx(a), hx(b)), cls="limits")
        c = [dyadic(rng, -4, 4, 2) for _ in range(rng.randint(1, 5))]
        add("c13.findeps %s %s %s %s" % (hx(a), hx(b), hx(rng.choice([1e-9, 1e-6, 0.5, -1e-3])), lst(c)), cls="findeps")
    for t in range(3):
        a, b = _pair(rng, -3, 3, t % 2)
        add("c13.default1 %s %s %s" % (hx(a), hx(b), _terms([(1.0, 5, 0, 0), (-2.0, 1, 0, 0)])), cls="default")
        r1, r2 = _pair(rng, 0.2, 2.0, 0)
        add("c13.sphdefault %s %s %s" % (hx(r1), hx(r2), _terms([(1.0, 2, 0, 0), (1.0, 0, 0, 0)])), cls="default")
    ctx["meta"] = meta
    ctx["worst"] = {}
    return R


# --------------------------------------------------------------------------------------------------

def _worst(ctx, key, v):
    ctx.setdefault("worst", {})
    if v > ctx["worst"].get(key, 0):
        ctx["worst"][key] = v


def _parse_terms(tk, pos):
    n = int(tk[pos]); pos += 1
    ts = []
    for _ in range(n):
        ts.append((Fraction(fl(tk[pos])), int(tk[pos + 1]), int(tk[pos + 2]), int(tk[pos + 3]))); pos += 4
    return ts, pos


def _mono_int(a, b, k):
    return (b ** (k + 1) - a ** (k + 1)) / (k + 1)


def _exact(ts, lims):
    """exact iterated integral of the polynomial over the oriented box"""
    tot = Fraction(0)
    for c, i, j, k in ts:
        v = c
        for (a, b), e in zip(lims, (i, j, k)):
            v *= _mono_int(a, b, e)
        tot += v
    return tot


def _scale(ts, lims):
    tot = Fraction(0)
    for c, i, j, k in ts:
        v = abs(c)
        for (a, b), e in zip(lims, (i, j, k)):
            v *= max(abs(a), abs(b)) ** e * abs(b - a)
        tot += v
    return tot


def _ranges(vals, lims, slack=Fraction(0)):
    """recorded (lo,hi) of every argument inside its own limit pair"""
    bad = []
    for ax, (a, b) in enumerate(lims):
        sl = slack[ax] if isinstance(slack, list) else slack
        lo, hi = vals[2 * ax], vals[2 * ax + 1]
        if math.isnan(lo) or math.isnan(hi):
            bad.append(ax); continue
        mn, mx = min(a, b), max(a, b)
        if Fraction(lo) < mn - sl or Fraction(hi) > mx + sl:
            bad.append(ax)
    return bad


def _mpfam(f):
    k, p0, p1, p2 = f
    if k == 0:
        return lambda x: mpmath.exp(-p0 * x) * mpmath.cos(p1 * x + p2)
    if k == 1:
        return lambda x: 1 / (1 + p0 * (x - p1) ** 2) + p2
    return lambda x: mpmath.exp(-(x - p0) ** 2 / (2 * p1 * p1)) + p2


_FAMCACHE = {}


def _pyfam(f):
    k, p0, p1, p2 = f
    if k == 0:
        return lambda x: math.exp(-p0 * x) * math.cos(p1 * x + p2)
    if k == 1:
        return lambda x: 1 / (1 + p0 * (x - p1) ** 2) + p2
    return lambda x: math.exp(-(x - p0) ** 2 / (2 * p1 * p1)) + p2


def _fam_ref(f, a, b):
    """(integral a..b with mpmath, integral of |f| over the interval (scale only: 400-point midpoint sum),
    |first Simpson estimate| (informational))"""
    key = (f, a, b)
    if key in _FAMCACHE:
        return _FAMCACHE[key]
    g = _mpfam(f)
    lo, hi = min(a, b), max(a, b)
    gf = _pyfam(f)
    k, p0, p1, p2 = f
    if k == 1 and p2 >= 0:      # closed form (exact also for sharp peaks): atan
        rt = mpmath.sqrt(mpmath.mpf(p0))
        I = (mpmath.atan(rt * (mpmath.mpf(hi) - p1)) - mpmath.atan(rt * (mpmath.mpf(lo) - p1))) / rt + mpmath.mpf(p2) * (mpmath.mpf(hi) - lo)
        A = float(I)
    elif k == 2 and p2 >= 0:    # closed form: erf
        sg = mpmath.mpf(p1)
        I = sg * mpmath.sqrt(mpmath.pi / 2) * (mpmath.erf((mpmath.mpf(hi) - p0) / (sg * mpmath.sqrt(2))) - mpmath.erf((mpmath.mpf(lo) - p0) / (sg * mpmath.sqrt(2)))) \
            + mpmath.mpf(p2) * (mpmath.mpf(hi) - lo)
        A = float(I)
    else:
        I = mpmath.quad(g, [lo + (hi - lo) * i / 4 for i in range(5)])
        N = 400
        A = sum(abs(gf(lo + (hi - lo) * (i + 0.5) / N)) for i in range(N)) * (hi - lo) / N
    S = (hi - lo) / 6 * (gf(lo) + 4 * gf((lo + hi) / 2) + gf(hi))
    r = ((I if b >= a else -I), mpmath.mpf(A), mpmath.mpf(abs(S)))
    _FAMCACHE[key] = r
    return r


def _peak_width(f, a, b):
    """(width of the peak, is it sharp relative to the interval) for the rational / Gaussian families"""
    k, p0, p1, p2 = f
    L = abs(b - a)
    if k == 1:
        w = 1 / math.sqrt(p0)
    elif k == 2:
        w = abs(p1)
    else:
        return None, False
    return w, w < L / 64


def _gk_depth_needed(f, a, b):
    """Bisection levels a correct adaptive 31-point Gauss-Kronrod needs for the peak: a panel of half width H resolves
    poles at distance w to ~1e-9 when H <= 2w (Bernstein ellipse rho = w/H + sqrt(1+(w/H)^2) >= 1.57, rho^-46 <= 1e-9),
    i.e. panel width L/2^d <= 4w.  Accuracy is JUDGED from two levels beyond that (margin); below, the property's
    clause 'accuracy at the requested depth' is not decidable without a model of Boost's error estimator."""
    w, sharp = _peak_width(f, a, b)
    if not sharp:
        return 0
    return max(0, math.ceil(math.log2(abs(b - a) / (4 * w))))


def _judged(meth, p, fams, pairs, ctx):
    """is the accuracy clause applicable to this request?  (Gauss-Kronrod on sharp peaks: only with enough depth)"""
    need = max(_gk_depth_needed(f, x1, x2) for f, (x1, x2) in zip(fams, pairs))
    if need == 0:
        return True
    if meth != "Gauss-Kronrod":
        return False
    depth = 5 if p == 0 else p
    ok = depth >= need + 2
    bump(ctx, "sharp-peak:judged" if ok else "sharp-peak:depth-too-small-not-judged")
    return ok


FLOOR_K = 256     # rounding floor K * 2^-53 * (conditioning scale): evaluating/summing the integrand in double


def _tolerance(meth, rel, ref, sc):
    """the method's accuracy: for the five 1e-9 methods RELATIVE TO |I| (the exact integral) plus the rounding floor of the
    conditioning scale sc (integral of |f| / sum of |terms|); Trapezoidal and the Monte-Carlo front ends relative to sc
    (see ASSUMPTIONS)"""
    if meth == "Trapezoidal" or meth in MC:
        return rel * sc
    return rel * abs(ref) + FLOOR_K * EPS * sc


def _fams(tk, pos, n):
    out = []
    for _ in range(n):
        out.append((int(tk[pos]), fl(tk[pos + 1]), fl(tk[pos + 2]), fl(tk[pos + 3]))); pos += 4
    return out


def _seq_members(a):
    k = int(a[0]); pos = 1; mem = []
    for _ in range(k):
        dim = int(a[pos]); meth = a[pos + 1]; p = int(a[pos + 2]); pos += 3
        lim = [fl(t) for t in a[pos:pos + 2 * dim]]; pos += 2 * dim
        fams = _fams(a, pos, dim); pos += 4 * dim
        mem.append((dim, meth, p, lim, fams))
    return mem


def _member_str(c):
    dim, meth, p, lim, fams = c
    return "%s(%s, p=%d, limits %s)" % ("Integrate" if dim == 1 else "Integrate_2D", meth, p, ", ".join("%.6g" % v for v in lim))


def compare_seq(rq, impl, model, ctx):
    """history (class D, theorem int_history_independent): every call of a sequence made in one process returns
    bit for bit what the same call returns alone in a fresh process; plus the accuracy clause on every member"""
    a = rq.split()[1:]
    mem = _seq_members(a)
    k = len(mem)
    fs, both = std_outcome(rq, impl, model)
    if tag(impl) == "timeout":
        return [fail("prop", "integration does not terminate within the time limit", rq[:80])]
    if not both:
        return fs
    t = toks(impl)
    if len(t) != 2 * k + 2 or t[k + 1] != "alone":
        return fs + [fail("corr", "protocol", impl[:100])]
    out = list(fs)
    ctx["nontrivial"].add(("c13.seq", tuple((c[0], c[1], c[2]) for c in mem)))
    for i, c in enumerate(mem):
        dim, meth, p, lim, fams = c
        sv, av = t[1 + i], t[k + 2 + i]
        if sv != av:
            out.append(fail("prop", "result of a named 1-D method depends on the calls made before it",
                            "%s returned %r after [%s], %r when made alone in a fresh process"
                            % (_member_str(c), fl(sv), "; ".join(_member_str(x) for x in mem[:i]), fl(av))))
        # accuracy of the member (only where a correct rule with that parameter can reach it)
        n_eff = 30 if p == 0 else p
        pairs = [(lim[2 * j], lim[2 * j + 1]) for j in range(dim)]
        if meth == "Gauss-Legendre_2" and not all(_gl_reaches(f, x1, x2, n_eff) for f, (x1, x2) in zip(fams, pairs)):
            continue
        ref, sc = Fraction(1), Fraction(1)
        for f, (x1, x2) in zip(fams, pairs):
            I, A, S = _fam_ref(f, x1, x2)
            ref *= Fraction(float(I)) + Fraction(float(I - float(I)))
            sc *= Fraction(float(A))
        rel = REL.get(meth, REL_DEFAULT) * dim
        v = fl(sv)
        if math.isnan(v) or math.isinf(v) or abs(Fraction(v) - ref) > _tolerance(meth, rel, ref, sc):
            out.append(fail("prop", "1-D integral outside the method's accuracy" if dim == 1 else
                            "separable integrand: result is not the product of the 1-D integrals",
                            "%s in a sequence: %r vs %.17g (scale %.3g)" % (_member_str(c), v, float(ref), float(sc))))
        elif sc:
            _worst(ctx, "seq %s err/tol" % meth, float(abs(Fraction(v) - ref) / _tolerance(meth, rel, ref, sc)))
    return out


def compare_neg(rq, impl, model, ctx):
    """'reversing the limits negates the result', per axis, bit for bit (theorems int1_swap, nested_swap_inner,
    nested_swap_axes_3D)"""
    a = rq.split()[1:]
    dim, meth = int(a[0]), a[1]
    fs, both = std_outcome(rq, impl, model)
    if tag(impl) == "timeout":
        return [fail("prop", "integration does not terminate within the time limit", rq[:80])]
    if not both:
        return fs
    v = [fl(t) for t in toks(impl)]
    out = list(fs)
    ctx["nontrivial"].add(("c13.neg", dim, meth))
    for i in range(dim):
        if not (v[1 + i] == -v[0]):
            out.append(fail("prop", "reversing the limits does not negate the result exactly",
                            "Integrate_%dD, %s: axis %d reversed gives %r, unreversed %r" % (dim, meth, i, v[1 + i], v[0])))
    sgn = -1.0 if dim % 2 else 1.0
    if not (v[1 + dim] == sgn * v[0]):
        out.append(fail("prop", "reversing the limits does not negate the result exactly",
                        "Integrate_%dD, %s: all axes reversed gives %r, unreversed %r" % (dim, meth, v[1 + dim], v[0])))
    return out


def compare(rq, impl, model, ctx):
    tk = rq.split()
    op, a = tk[0], tk[1:]
    bump(ctx, op)
    md = ctx.get("meta", {}).get(rq, {})
    if op == "c13.selftest":
        if tag(model) != "ok" or any(fr(t) != 0 for t in toks(model)):
            return [fail("corr", "driver self-test (Newton-Cotes reference rule) failed", model[:200])]
        return []
    if op == "c13.seq":
        return compare_seq(rq, impl, model, ctx)
    if op == "c13.neg":
        return compare_neg(rq, impl, model, ctx)
    fs, both = std_outcome(rq, impl, model)
    if op.startswith("c13.outcome"):
        ctx["nontrivial"].add((op, a[0], tag(model)))
        out = list(fs)
        return out
    if op == "c13.checklimits":
        if not both:
            return fs
        vi = [Fraction(fl(t)) for t in toks(impl)]; vm = [fr(t) for t in toks(model)]
        ctx["nontrivial"].add((op, fl(a[0]) > fl(a[1]), fl(a[0]) == fl(a[1])))
        return fs + ([] if vi == vm else [fail("prop", "Check_Integration_Limits does not order the limits / set the sign", "")])
    if op == "c13.findeps":
        if not both:
            return fs
        x1, x2, pr = Fraction(fl(a[0])), Fraction(fl(a[1])), Fraction(fl(a[2]))
        v, m = fl(toks(impl)[0]), fr(toks(model)[0])
        c = [Fraction(fl(t)) for t in a[4:]]
        pe = lambda x: sum(abs(ck) * abs(x) ** k for k, ck in enumerate(c))
        sc = abs(pr) * abs(x2 - x1) / 6 * (pe(x1) + 4 * pe((x1 + x2) / 2) + pe(x2))
        ctx["nontrivial"].add((op, len(c), x1 > x2))
        return fs + ([] if close(v, m, sc, 64) else [fail("prop", "Find_Epsilon is not precision * Simpson estimate", "%r vs %s" % (v, float(m)))])
    if op in ("c13.default1", "c13.sphdefault"):
        if tag(impl) != "ok":
            return fs or [fail("prop", "default-argument call failed", impl[:100])]
        t = toks(impl)
        ctx["nontrivial"].add((op,))
        return fs + ([] if t[0] == t[1] else [fail("prop", "default arguments are not (\"Gauss-Legendre\", 0, full sphere)", impl[:100])])

    # ---- integrals ---------------------------------------------------------------------------------------
    m, p = a[0], int(a[1])
    mc = m in MC
    if tag(impl) == "timeout":
        return [fail("prop", "integration does not terminate within the time limit", m)]
    if not both:
        return fs
    out = list(fs)
    ti = toks(impl)
    v, vn = fl(ti[0]), fl(ti[1])
    rel = Fraction(1, 10) if mc else REL.get(m, REL_DEFAULT)
    key = (op, m, md.get("cls"), md.get("orient"), md.get("pc"))
    ctx["nontrivial"].add(key)
    if math.isnan(v) or math.isinf(v):
        return out + [fail("prop", "result is not finite", ti[0])]
    if not mc and ti[0] != ti[1] and op == "c13.sph":
        # The property fixes norm, polar angle and azimuth of the vector, not the spelling of its components: a vector
        # built another way differs by a few ulp per component.  The comparison with the Cartesian overload on
        # r^2 f(Spherical_Coordinates(r, acos c, phi)) is therefore judged at the rounding level of the integrand's
        # own conditioning (explicit Lipschitz bound of the generated family sum c r^i ct^j phi^k in (|v|, v_z/|v|,
        # atan2(v_y,v_x)) under perturbations d|v| <= u|v|, d ct <= u, d phi <= u, u = 8 * 2^-53) for the FIXED-NODE
        # rules; for adaptive rules an ulp can flip a refinement decision, so there only the accuracy clause decides.
        # A bitwise difference is a statistic.
        bump(ctx, "sph:not-bit-identical-to-the-Spherical_Coordinates-spelling")
        if m in ("Gauss-Legendre", "Gauss-Legendre_2"):
            Ls = [Fraction(fl(t)) for t in a[2:8]]
            ts_, _ = _parse_terms(a, 9)
            Rm = max(abs(Ls[0]), abs(Ls[1])); Pm = max(abs(Ls[4]), abs(Ls[5]), 1)
            vol = abs(Ls[1] - Ls[0]) * abs(Ls[3] - Ls[2]) * abs(Ls[5] - Ls[4])
            lip = sum(abs(c) * Rm ** (i + 2) * Pm ** k * (i + j + k + 1) for c, i, j, k in ts_) * vol
            told = 2 * 8 * EPS * lip
            _worst(ctx, "sph spelling diff/tol", float(abs(Fraction(v) - Fraction(vn)) / told) if told else 0.0)
            if abs(Fraction(v) - Fraction(vn)) > told:
                out.append(fail("prop", "spherical overload differs from the Cartesian overload on r^2 f(Spherical_Coordinates(r, acos c, phi))",
                                "%r vs %r (rounding-level tolerance %.3g)" % (v, vn, float(told))))
    elif not mc and ti[0] != ti[1]:
        what = {"c13.int1": "method_parameter 0 differs from the default call", "c13.fam1": "method_parameter 0 differs from the default call",
                "c13.sph": "spherical overload differs from the Cartesian overload on r^2 f(Spherical_Coordinates(r, acos c, phi))"}.get(
                    op, "Integrate_%s differs from the explicitly nested 1-D calls" % ("2D" if "2" in op else "3D"))
        out.append(fail("prop", what, "%r vs %r" % (v, vn)))
    if op in ("c13.int1", "c13.fam1"):
        x1, x2 = fl(a[2]), fl(a[3])
        lims = [(Fraction(x1), Fraction(x2))]
        calls = int(ti[2]); rec = [fl(t) for t in ti[3:5]]
        vr = fl(ti[5])
        if not (vr == -v):       # bit for bit (the sign of a zero is immaterial)
            out.append(fail("prop", "reversing the limits does not negate the result exactly", "%r vs reversed %r" % (v, vr)))
        if x1 == x2:
            if v != 0.0 or calls != 0:
                out.append(fail("prop", "equal limits do not give zero", repr(v)))
            return out
        if _ranges(rec, lims):
            out.append(fail("prop", "integrand evaluated outside the limits", "%r" % rec))
        if op == "c13.int1":
            ts, _ = _parse_terms(a, 4)
            ref = fr(toks(model)[0]); sc = _scale(ts, lims)
            if ref != _exact(ts, lims):
                out.append(fail("corr", "model value is not the exact integral (reference rule not exact?)", ""))
        else:
            f = _fams(a, 4, 1)[0]
            if not _judged(m, p, [f], [(x1, x2)], ctx):
                return out
            I, A, S = _fam_ref(f, x1, x2)
            ref = Fraction(float(I)) + Fraction(float(I - float(I))); sc = Fraction(float(A))
        d = abs(Fraction(v) - ref)
        tol1 = _tolerance(m, rel, ref, sc)
        _worst(ctx, "1D %s err/tol" % m, float(d / tol1) if tol1 else 0.0)
        if d > tol1:
            out.append(fail("prop", "1-D integral outside the method's accuracy", "%s: %r vs %.17g (scale %.3g)" % (m, v, float(ref), float(sc))))
        return out
    dim = 2 if op in ("c13.int2", "c13.fam2") else 3
    L = [fl(t) for t in a[2:2 + 2 * dim]]
    lims = [(Fraction(L[2 * i]), Fraction(L[2 * i + 1])) for i in range(dim)]
    pos = 2 + 2 * dim + 1
    if op == "c13.sph":
        calls = int(ti[3]); rec = [fl(t) for t in ti[4:10]]
        if fl(ti[2]) != 0.0:
            out.append(fail("prop", "spherical overload: integrand received a vector that is not 3-dimensional", ""))
        # norm = r, cos(polar angle) = cos_theta, azimuth = phi: each inside its own pair (to rounding)
        full = md.get("cls") == "full" or (L[4] == 0.0 and L[5] > 6.28)
        chk = lims[:2] if full else lims
        # rounding only: 8 * 2^-53 relative to the magnitude of the quantity (norm ~ r, |cos theta| <= 1, |phi|)
        slack = [8 * EPS * max(abs(lo_), abs(hi_), 1) for lo_, hi_ in chk]
        bad = _ranges(rec, chk, slack)
        if bad:
            out.append(fail("prop", "spherical overload: norm/polar angle/azimuth of the vectors are not the integration variables",
                            "axes %r recorded %r" % (bad, rec)))
    else:
        calls = int(ti[2]); rec = [fl(t) for t in ti[3:3 + 2 * dim]]
        bad = _ranges(rec, lims)
        if bad:
            out.append(fail("prop", "an argument of the integrand does not receive the variable of its own pair of limits",
                            "axes %r recorded %r limits %r" % (bad, rec, L)))
    if calls <= 0:
        out.append(fail("prop", "integrand never evaluated", ""))
    if op in ("c13.int2", "c13.int3", "c13.sph"):
        ts, _ = _parse_terms(a, pos)
        ref = fr(toks(model)[0])
        if op == "c13.sph":
            ts2 = [(c, i + 2, j, k) for c, i, j, k in ts]
            ex = _exact(ts2, lims); sc = _scale(ts2, lims)
            if md.get("cls") == "full" and not mc:
                # 4 pi * radial integral (model: 2 * (phi2 - phi1) * radial with phi2 - phi1 = the double 2 pi)
                rad = _exact([(c, i + 2, 0, 0) for c, i, j, k in ts], lims[:1])
                if abs(Fraction(v) - 4 * Fraction(math.pi) * rad) > _tolerance(m, rel, ex, sc):
                    out.append(fail("prop", "full sphere: result is not 4 pi times the radial integral of r^2 f", "%r" % v))
        else:
            ex = _exact(ts, lims); sc = _scale(ts, lims)
        if ref != ex:
            out.append(fail("corr", "model value is not the exact iterated integral (reference rule not exact?)", "%s vs %s" % (float(ref), float(ex))))
    else:
        fams = _fams(a, pos, dim)
        if not _judged(m, p, fams, [(L[2 * i], L[2 * i + 1]) for i in range(dim)], ctx):
            return out
        ref, sc = Fraction(1), Fraction(1)
        for f, (x1, x2) in zip(fams, [(L[2 * i], L[2 * i + 1]) for i in range(dim)]):
            I, A, S = _fam_ref(f, x1, x2)
            ref *= Fraction(float(I)) + Fraction(float(I - float(I)))
            sc *= Fraction(float(A))
        rel = rel * dim
    d = abs(Fraction(v) - ref)
    toln = _tolerance(m, rel, ref, sc)
    _worst(ctx, "%dD %s %s err/tol" % (dim, m, op[4:]), float(d / toln) if toln else 0.0)
    if d > toln:
        clause = ("Monte-Carlo front end: result is not the integral over the box of the given limits" if mc else
                  "spherical overload: result is not the integral of r^2 f over the shell segment" if op == "c13.sph" else
                  "separable integrand: result is not the product of the 1-D integrals" if op.startswith("c13.fam") else
                  "nested integral outside the method's accuracy of the exact iterated integral")
        out.append(fail("prop", clause, "%s: %r vs %.17g (scale %.3g)" % (m, v, float(ref), float(sc))))
    return out


def oracle_only(rq, impl, ctx):
    """property oracle without the Lean driver: the exact references are recomputed here"""
    tk = rq.split()
    op, a = tk[0], tk[1:]
    if op in ("c13.selftest", "c13.checklimits", "c13.findeps"):
        return []
    if op in ("c13.default1", "c13.sphdefault", "c13.seq", "c13.neg"):
        model = "ok"
    elif op.startswith("c13.outcome"):
        nm = a[0]
        if op == "c13.outcome1":
            known = nm in METHODS
        elif op == "c13.outcomemc":
            known = nm in MC
        else:
            known = nm in METHODS or nm in MC
        model = "ok" if known else "err"
    else:
        nm = a[0]
        if not (nm in METHODS or (nm in MC and op != "c13.int1" and op != "c13.fam1")):
            model = "err"
        elif op.startswith("c13.fam"):
            model = "ok"
        else:
            dim = {"c13.int1": 1, "c13.int2": 2, "c13.int3": 3, "c13.sph": 3}[op]
            L = [Fraction(fl(t)) for t in a[2:2 + 2 * dim]]
            lims = [(L[2 * i], L[2 * i + 1]) for i in range(dim)]
            ts, _ = _parse_terms(a, 2 + 2 * dim + (0 if dim == 1 else 1))
            if op == "c13.sph":
                ts = [(c, i + 2, j, k) for c, i, j, k in ts]
            ex = _exact(ts, lims)
            model = "ok %d/%d" % (ex.numerator, ex.denominator)
    return [f for f in compare(rq, impl, model, ctx) if f["kind"] == "prop"]


def finalize(ctx, exe):
    if os.environ.get("C13_CALIB"):
        for k, v in sorted(ctx.get("worst", {}).items()):
            print("  calib %-40s %.4g" % (k, v), file=sys.stderr)
    ctx["stats"].update({"worst:" + k: float("%.3g" % v) for k, v in ctx.get("worst", {}).items()})
    return []
