"""C12 — Gauss-Legendre rules are valid quadrature rules of every order on every interval."""
import math, os, random, sys
from fractions import Fraction
from common import *

if hasattr(sys, "set_int_max_str_digits"):
    sys.set_int_max_str_digits(0)   # the model's exact rationals have thousands of digits

RULE = ("histories (c12.seq: sequences of orders in one process, incl. consecutive orders sharing (n+1)/2) are counted once per "
        "distinct tuple of (order, half length); "
        "orders are enumerated (1..64 quick, 1..512 thorough, each on several intervals) plus a seeded sample of orders up "
        "to 4000; a case is non-trivial when the model answers ok/err and is counted once per distinct "
        "(op, order, parity, interval class: canonical/shifted/reversed/far/tiny, outcome) key")
CORR_ONLY = ["exactness to degree 2n-1: PROVED for all n for the rule with nodes at n distinct roots of the coded P_n and the coded "
             "weights (Lp.C12.gl_exact_legendre: structure theorem + orthogonality of the coded recurrence + Christoffel-Darboux "
             "weight formula, algebraic integral, any field of characteristic 0; instances n=2,3 in R); what is still only "
             "EVALUATED per n on the implementation's nodes/weights (Legendre basis and monomials up to degree min(2n-1,60), "
             "160-bit fixed point / exact fractions) is that the doubles returned are those roots/weights to rounding, i.e. "
             "convergence of the coded Newton iteration to them (existence of n distinct real roots of the coded P_n in (-1,1), "
             "simplicity, and positivity of the coded weights are theorems over R for every n: Lp.C12.legendre_real_roots, "
             "legendre_roots_nodup, gl_exact_legendre_real, gl_exact_legendre_real_interval)",
             "nodes strictly increasing and strictly inside, weights positive: evaluated per order (the sum b-a is a theorem for exact roots, Lp.C12.gl_weights_sum) on the "
             "implementation's output and, through class B, against the model's 200-bit Newton iteration",
             "convergence of the Newton iteration from the coded start value (termination of while(true))"]
ASSUMPTIONS = ["weights 'to rounding': since fix f38103c pp is evaluated at the returned node, so the tolerance is rounding only: node rounding "
               "(<= 4 * 2^-53) propagated through the weight's conditioning 2|t|/(1-t^2), plus n/4 * 2^-53 growth of the recurrence; measured worst "
               "sum w error 7.6 eps (n = 435); before the fix (pp of the previous Newton iterate, stopping rule 1e-14) it was 208 eps (n = 1001)",
               "rows of roots_and_weights of any length other than 2 (0, 1, 3, a transposed rule with n != 2) are rejected with a diagnostic "
               "since fix 455b721; a transposed 2-point rule (2 rows of 2 entries) is indistinguishable from a rule and is accepted",
               "intervals with |b-a| > DBL_MAX (e.g. [-DBL_MAX, DBL_MAX]) have infinite weights: b-a itself is not a double - outside the statement; "
               "widths below 64 n^2 DBL_MIN (subnormal weights) are outside the generated range",
               "narrow intervals: the order is limited so that neighbouring end nodes are >= 2 ulp apart (below ~1 ulp strict monotonicity "
               "cannot hold in double precision); the generator admits every order whose true end gap h(1-z_0) is >= 1.0 ulp of the limits",
               "the model's Newton iteration runs in rounded rational arithmetic (2^-200) with a Taylor cosine and a 100-digit "
               "rational pi: validated by the driver self-test (cos(pi/3), cos(pi/4), cos(pi/6), cos(2pi/3)), not verified",
               "std::cos of libm is accurate enough for Newton to converge to root i from the coded start value"]
TRUSTED = ["props/c12.py oracle: 160-bit fixed-point Legendre recurrence and exact Fraction moments in Python",
           "Driver/C12.lean: Taylor cosine + rational pi (validated, not verified)"]

P = 160  # fixed-point bits of the oracle
ONE = 1 << P

# Since fix f38103c the weight is formed with pp = P_n'(z) evaluated at the RETURNED node z (theorem newtonRootPP_pp), so the
# only first-order error of a weight is the rounding of the node itself: W(z) = 2/((1-z^2) P_n'(z)^2) has
# W'/W = -2z/(1-z^2) at a root (P'' / P' = 2z/(1-z^2)), i.e. a node error dz moves the weight by cond(t) = 2|t|/(1-t^2)
# relative, and sum w by at most sum |w| cond dz.  NODE_ULPS bounds dz in units of 2^-53 (nodes agree with the reference to
# 1.6 * 2^-53 (|a|+|b|)); the recurrence adds a rounding growth proportional to n to pp (measured: n/4).
# Measured on HEAD (thorough seed 1, quick seeds 1-2): sum w error <= 1.21 * eps * (sum|w|cond + L) [7.6 eps L at n = 435];
# weight error <= 4.65 * eps * |w| * (1 + cond + n/4) (n = 926; 2.6 over the entries sampled in thorough).  Constants below carry a x2.5-4 margin.
NODE_ULPS = 4
NEWTON = NODE_ULPS * EPS          # (name kept: the former Newton-stopping term 3e-14 is gone with f38103c)
K_NODE = 4         # |dx|  <= K_NODE * eps * (|a|+|b|)   (audit: worst 1.01, own thorough runs: 1.9)
K_WEIGHT = 12      # |dw|  <= |w| * K_WEIGHT * eps * (1 + cond(t) + n/4)   (worst measured: 4.65 at n = 926, audit D; 2.6 in own thorough runs)
K_SUM = 4          # |sum w - (b-a)| <= eps * (NODE_ULPS * sum |w| cond + K_SUM * |b-a|)


def _intervals(rng, n_int, thorough):
    """interval classes: canonical, shifted, reversed, far from the origin, tiny/huge width"""
    out = [("canon", -1.0, 1.0)]
    pool = []
    a = rng.uniform(-10, 10); pool.append(("shifted", a, a + rng.uniform(0.1, 20)))
    a = rng.uniform(-10, 10); pool.append(("reversed", a + rng.uniform(0.1, 20), a))
    a = rng.choice([-1, 1]) * rng.uniform(1e3, 1e6); pool.append(("far", a, a + rng.uniform(0.5, 50)))
    a = mixed_magnitude(rng, -8, 8); w = abs(a) * rng.uniform(0.5, 4)
    pool.append(("scaled", a, a + w))
    pool.append(("unit01", 0.0, 1.0))
    a = rng.choice([-1, 1]) * rng.uniform(1e2, 1e4); pool.append(("farrev", a + rng.uniform(0.5, 5), a))
    rng.shuffle(pool)
    return out + pool[:n_int - 1]


def generate(tier, seed, ctx):
    rng = random.Random(seed * 7919 + 12)
    thorough = tier == "thorough"
    R = ["c12.selftest"]
    ctx["cls"] = {}
    nmax = 512 if thorough else 64
    for n in range(0, nmax + 1):
        ivs = _intervals(rng, 7, thorough)
        # every order sees the canonical interval; the other classes rotate so that each is met at every parity.
        # The model computes the full rule (cost ~ n^2) for n <= 192 and every 8th order beyond, and selected
        # entries (ends, middle, random) otherwise; the property oracle always sees the implementation's full rule.
        full = n <= 192 or n % 8 == 0
        k = 3 if n <= 64 else 1
        if k > 1:
            chosen = [ivs[0]] + [ivs[1 + (n // 2 + j) % 6] for j in range(k - 1)]
        else:
            chosen = [ivs[1 + (n // 2) % 6] if n % 5 else ivs[0]]
        for cls, a, b in chosen:
            if full:
                R.append("c12.rule %d %s %s" % (n, hx(a), hx(b)))
            else:
                idx = sorted(set([0, 1, 2, n // 2 - 1, n // 2, (n - 1) // 2, n - 3, n - 2, n - 1] + [rng.randrange(n) for _ in range(12)]))
                R.append("c12.sel %d %s %s %s" % (n, hx(a), hx(b), ilst(idx)))
            ctx["cls"][len(R) - 1] = cls
        if n > 64:   # a second interval on selected indices (cheap for the model)
            cls, a, b = ivs[1 + (n // 2 + 3) % 6]
            idx = sorted(set([0, 1, n // 2 - 1, n // 2, (n - 1) // 2, n - 2, n - 1] + [rng.randrange(n) for _ in range(6)]))
            R.append("c12.sel %d %s %s %s" % (n, hx(a), hx(b), ilst(idx)))
            ctx["cls"][len(R) - 1] = cls
    if thorough:      # every order 513..4000: the cheap clauses (inside, monotone, signs, symmetry, sum of the weights)
        for n in range(513, 4001):
            cls, a, b = ("canon", -1.0, 1.0) if n % 4 == 0 else rng.choice(_intervals(rng, 7, thorough))
            if n % 37 == 0:      # entries against the model at every 37th order (ends, middle, random)
                idx = sorted(set([0, 1, n // 2, n - 2, n - 1] + [rng.randrange(n) for _ in range(4)]))
                R.append("c12.sel %d %s %s %s" % (n, hx(a), hx(b), ilst(idx)))
            else:
                R.append("c12.sel %d %s %s 0" % (n, hx(a), hx(b)))
            ctx["cls"][len(R) - 1] = "exh:" + cls
    else:             # quick tier (seventh wave, C12-r): a random sample of the orders 513..4000 on the cheap clauses - 320 even and
        # 160 odd orders, so that a defect hitting a few per cent of the large orders of one parity (a Newton loop that cycles in
        # rounding noise: the call never returns) is met with probability 1 - 1e-5 on every run; thorough takes every order
        for n in sorted(set([2 * rng.randint(257, 2000) for _ in range(320)] + [2 * rng.randint(256, 1999) + 1 for _ in range(160)])):
            cls, a, b = ("canon", -1.0, 1.0) if n % 4 == 0 else rng.choice(_intervals(rng, 7, thorough))
            R.append("c12.sel %d %s %s 0" % (n, hx(a), hx(b)))
            ctx["cls"][len(R) - 1] = "exh:" + cls
    # sample of large orders, odd and even
    if thorough:
        big = [4000, 3999] + [rng.randint(513, 4000) for _ in range(22)]
    else:
        big = [rng.choice([4000, 3999]), rng.randint(65, 512), rng.randint(513, 2000), rng.randint(2001, 4000)]
        if big[0] % 2 == big[3] % 2:
            big[3] -= 1
    for n in big:
        cls, a, b = rng.choice(_intervals(rng, 7, thorough))
        idx = sorted(set([0, 1, n // 2, (n - 1) // 2, n - 2, n - 1] + [rng.randrange(n) for _ in range(3 if not thorough else 8)]))
        R.append("c12.sel %d %s %s %s" % (n, hx(a), hx(b), ilst(idx)))
        ctx["cls"][len(R) - 1] = cls
    # histories in one process: consecutive orders that differ but share (n+1)/2, same order on different
    # intervals, random sequences (theorem gl_history_independent: the rule is a function of (n,a,b) only)
    def _seq(mem):
        R.append("c12.seq %d %s" % (len(mem), " ".join("%d %s %s" % (n, hx(a), hx(b)) for n, a, b in mem)))
    def _iv():
        return rng.choice(_intervals(rng, 7, thorough))[1:]
    ks = [1, 2, 16] + [rng.randint(3, 32 if not thorough else 128) for _ in range(3 if not thorough else 10)]
    for k in ks:
        _seq([(2 * k, -1.0, 1.0), (2 * k - 1, -1.0, 1.0)])
        _seq([(2 * k - 1, -1.0, 1.0), (2 * k, -1.0, 1.0)])
        (a1, b1), (a2, b2) = _iv(), _iv()
        _seq([(2 * k, a1, b1), (2 * k - 1, a2, b2), (2 * k, a2, b2), (2 * k - 1, a1, b1)])
    for t in range(4 if not thorough else 12):
        n = rng.randint(1, 40)
        _seq([(n,) + _iv() for _ in range(3)] + [(n, -1.0, 1.0)])
    for t in range(6 if not thorough else 24):
        base = rng.randint(1, 30 if not thorough else 100)
        mem = []
        for _ in range(rng.randint(3, 6)):
            base = max(1, base + rng.choice([-2, -1, -1, 0, 1, 1, 2]))
            mem.append((base,) + _iv())
        _seq(mem)
    # equal widths at different positions, same order (a rule is NOT fixed by order and width alone)
    for n in [5, 30] + [rng.randint(1, 40) for _ in range(2 if not thorough else 8)]:
        w = rng.choice([1.0, 0.5, 2.5, 3.0])
        p0 = dyadic(rng, -8, 8, 2)
        _seq([(n, p0, p0 + w), (n, p0 + w, p0 + 2 * w), (n, p0 - 4.0, p0 - 4.0 + w)])
        _seq([(n, 0.0, w), (n, -w / 2, w / 2), (n, w, 0.0), (n, 3 * w, 2 * w)])
    # histories of the integrating overload (func,a,b,n): equal-width panels at different positions with the same n
    # (composite integration), same location with different n, reversed widths, random
    def _iseq(c, mem):
        R.append("c12.iseq %s %d %s" % (lst(c), len(mem), " ".join("%d %s %s" % (n, hx(a), hx(b)) for n, a, b in mem)))
    _iseq([1.0, -2.0, 0.0, 1.0], [(5, 0.0, 1.0), (5, 1.0, 2.0), (5, 2.0, 3.0)])          # x^3 - 2x + 1 on equal panels
    _iseq([1.0, -2.0, 0.0, 1.0], [(5, 0.0, 2.5), (5, -1.25, 1.25)])
    for t in range(8 if not thorough else 30):
        n = rng.choice([1, 2, 3, 5, 8, 16, 30, 31]) if t % 2 else rng.randint(1, 40)
        deg = rng.randint(0, min(2 * n - 1, 9))
        c = [float(rng.randint(-9, 9)) / rng.choice([1, 2, 4]) for _ in range(deg)] + [1.0]
        w = rng.choice([0.25, 0.5, 1.0, 1.5, 2.0])
        p0 = dyadic(rng, -3, 3, 2)
        kind = t % 4
        if kind == 0:      # composite panels, ascending then one far away
            mem = [(n, p0 + i * w, p0 + (i + 1) * w) for i in range(3)] + [(n, p0 - 2.0, p0 - 2.0 + w)]
        elif kind == 1:    # reversed equal widths, and the same panel in both directions
            mem = [(n, p0 + w, p0), (n, p0 + 3 * w, p0 + 2 * w), (n, p0 + 2 * w, p0 + 3 * w), (n, p0, p0 + w)]
        elif kind == 2:    # same location, different orders (all exact for the degree)
            n2 = n + rng.choice([1, 2, 7])
            mem = [(n, p0, p0 + w), (n2, p0, p0 + w), (n, p0 + w, p0 + 2 * w), (n2, p0 + w, p0 + 2 * w)]
        else:              # random walk of positions with one width, mixed with another width
            mem = [(n, q, q + (w if j % 3 else 2 * w)) for j, q in enumerate(dyadic(rng, -3, 3, 2) for _ in range(5))]
        _iseq(c, mem)
    # consecutive calls of the integrating overload whose limits are DIFFERENT doubles but agree to 1 ulp ... 1e-9 relative
    # (a rule is fixed by the exact limits, not by limits "equal" to some tolerance): perturbed pairs, and composite-rule
    # panel walks far from the origin (adjacent panels whose ends differ by < 1e-10 relative)
    def _near(x, d):
        if d == "ulp":
            return math.nextafter(x, math.inf)
        return x * (1.0 + d) if x != 0.0 else d
    for t in range(10 if not thorough else 40):
        n = rng.choice([2, 3, 5, 8, 16, 30]) if t % 2 else rng.randint(1, 40)
        deg = rng.randint(1, min(2 * n - 1, 5))
        c = [float(rng.randint(-9, 9)) / rng.choice([1, 2, 4]) for _ in range(deg)] + [1.0]
        d1 = rng.choice(["ulp", 2.0 ** -40, 2.0 ** -36, 1e-11, 3e-11, 1e-10, 1e-9])
        d2 = rng.choice(["ulp", 2.0 ** -40, 2.0 ** -36, 1e-11, 3e-11, 1e-10, 1e-9])
        kind = t % 4
        if kind == 3:      # composite rule: adjacent panels of relative width 2^-40 ... 2^-34 at 2^10 ... 2^30
            x0 = 2.0 ** rng.randint(10, 30) * rng.choice([1.0, -1.0, 1.5])
            w = abs(x0) * 2.0 ** -rng.randint(34, 40)
            mem = [(n, x0 + i * w, x0 + (i + 1) * w) for i in range(4)]
            c = [0.0, 0.0, 0.0, 1.0] if t % 8 == 3 else c
        else:
            a0 = dyadic(rng, -4, 4, 3) if t % 3 else 0.0
            b0 = a0 + rng.choice([0.5, 1.0, 2.5])
            if kind == 0:      # upper limit moves
                mem = [(n, a0, b0), (n, a0, _near(b0, d1)), (n, a0, b0)]
            elif kind == 1:    # lower limit moves (not representable as relative change when a0 = 0: absolute)
                mem = [(n, a0, b0), (n, _near(a0, d1), b0), (n, _near(a0, d1), _near(b0, d2))]
            else:              # both move, reversed orientation
                mem = [(n, b0, a0), (n, _near(b0, d1), _near(a0, d2)), (n, b0, a0)]
        _iseq(c, mem)
        if t % 5 == 0:
            _seq([(m_[0], m_[1], m_[2]) for m_ in mem])
    # re-entrant use: the integrand of overload (func,a,b,n) calls overload (func,a',b',n') with limits that depend
    # on the outer variable (iterated integrals over triangles/trapezia); same and different orders, >= 8 outer nodes
    for t in range(10 if not thorough else 40):
        nO = rng.choice([8, 9, 12, 16, 30]) if t % 3 else rng.randint(8, 40)
        nI = nO if t % 2 == 0 else rng.choice([3, 4, 5, 8, 10, 13])
        a0, b0 = dyadic(rng, -2, 2, 2), dyadic(rng, -2, 2, 2)
        if a0 == b0:
            b0 = a0 + 1.0
        kind = t % 5
        if kind == 0:
            l0, l1, h0, h1 = 0.0, 0.0, 0.0, 1.0            # triangle: y from 0 to x
        elif kind == 1:
            l0, l1, h0, h1 = 0.0, 1.0, 1.0, 0.0            # y from x to 1
        elif kind == 2:
            l0, l1, h0, h1 = 0.0, -1.0, 0.0, 1.0           # y from -x to x
        elif kind == 3:
            l0, l1, h0, h1 = dyadic(rng, -2, 2, 1), dyadic(rng, -1, 1, 1), dyadic(rng, -2, 2, 1), dyadic(rng, -1, 1, 1)
        else:
            l0, l1, h0, h1 = dyadic(rng, -2, 0, 1), 0.0, dyadic(rng, 0, 2, 1) + 0.5, 0.0   # fixed inner limits (rectangle)
        jmax = min(2 * nI - 1, 5)
        ts = []
        for _ in range(rng.randint(1, 3)):
            j = rng.randint(0, jmax)
            i = rng.randint(0, max(0, min(4, 2 * nO - 2 - j - 1)))
            ts.append((float(rng.choice([-3, -2, -1, 1, 2, 3])) / rng.choice([1, 2]), i, j))
        ts.append((2.0, 0, min(1, jmax)))
        R.append("c12.reent %d %d %s %s %s %s %s %s %d %s" % (nO, nI, hx(a0), hx(b0), hx(l0), hx(l1), hx(h0), hx(h1), len(ts),
                                                       " ".join("%s %d %d" % (hx(c), i, j) for c, i, j in ts)))
    # narrow intervals far from the origin: |b-a|/max(|a|,|b|) log-uniform from 1e-6 down to the resolution of doubles;
    # the order is limited only by the true end gap h (1 - z_0) >= 1.0 ulp of the limits (below that a node cannot lie
    # strictly between the limit and its neighbour in double precision)
    def _gap(n):      # 1 - z_0 for the coded start value (accurate to O(n^-4))
        return 1.0 - math.cos(math.pi * 0.75 / (n + 0.5))
    for t in range(30 if not thorough else 150):
        rel = 10.0 ** rng.uniform(-15.3, -6)
        mag = 10.0 ** rng.uniform(0, 13) * rng.choice([-1.0, 1.0])
        a0 = mag * rng.uniform(1, 9.99)
        ulp = math.ulp(abs(a0))
        wdt = max(abs(a0) * rel, 2 * ulp)
        b0 = a0 + wdt if t % 3 else a0 - wdt
        u = max(math.ulp(abs(a0)), math.ulp(abs(b0)))
        h = abs(b0 - a0) / 2
        nmax = 1
        for cand in range(1, 513):
            if h * _gap(cand) >= 1.0 * u:
                nmax = cand
            else:
                break
        if h < u:
            continue
        n = rng.randint(1, nmax) if t % 2 else nmax
        if n <= 96:
            R.append("c12.rule %d %s %s" % (n, hx(a0), hx(b0)))
        else:      # (the model computes selected entries only; the oracle sees the full rule)
            idx = sorted(set([0, 1, n // 2, n - 2, n - 1] + [rng.randrange(n) for _ in range(5)]))
            R.append("c12.sel %d %s %s %s" % (n, hx(a0), hx(b0), ilst(idx)))
        ctx["cls"][len(R) - 1] = "narrow-rev" if b0 < a0 else "narrow"
        if t % 4 == 0:
            c = [float(rng.randint(-3, 3)), float(rng.randint(1, 3))]
            R.append("c12.integ %s %s %s %d" % (lst(c), hx(a0), hx(b0), min(n, 40)))
    # the whole exponent range: limits up to 2^1023 (|a+b| > DBL_MAX, opposite signs with |b-a| <= DBL_MAX), down to 1e-300
    # (width >= 64 n^2 DBL_MIN so that no weight is subnormal)
    DBL_MAX = sys.float_info.max
    for t in range(24 if not thorough else 96):
        kind = t % 6
        n = rng.choice([1, 2, 3, 5, 8, 16, 31, 64]) if t % 2 else rng.randint(1, 64)
        if kind == 0:      # same sign, sum overflows
            a0 = rng.uniform(0.5, 0.9) * DBL_MAX; b0 = rng.uniform(0.91, 1.0) * DBL_MAX
        elif kind == 1:    # negative, reversed
            a0 = -rng.uniform(0.91, 1.0) * DBL_MAX; b0 = -rng.uniform(0.5, 0.9) * DBL_MAX; a0, b0 = b0, a0
        elif kind == 2:    # opposite signs, difference still finite
            a0 = -rng.uniform(0.1, 0.49) * DBL_MAX; b0 = rng.uniform(0.1, 0.49) * DBL_MAX
        elif kind == 3:    # 2^1023 exactly at one end
            a0 = 2.0 ** 1023; b0 = 2.0 ** 1023 * rng.uniform(0.3, 0.9)
        elif kind == 4:    # tiny magnitudes
            a0 = rng.choice([-1, 1]) * 10.0 ** rng.uniform(-300, -250); b0 = a0 * rng.uniform(1.5, 9) if t % 12 < 6 else -a0 * rng.uniform(0.2, 3)
        else:              # huge dynamic range inside one interval
            a0 = 10.0 ** rng.uniform(-300, -100); b0 = 10.0 ** rng.uniform(100, 307) * rng.choice([-1, 1])
        if kind == 4 and abs(b0 - a0) < 64 * n * n * sys.float_info.min:
            continue
        R.append("c12.rule %d %s %s" % (n, hx(a0), hx(b0)))
        ctx["cls"][len(R) - 1] = ["huge-sum", "huge-neg-rev", "huge-opposite", "2^1023", "tiny", "wide-range"][kind]
        if kind in (0, 2):      # integrand bounded by 1/2 so that f(x) w and the sum stay finite
            R.append("c12.integ %s %s %s %d" % (lst([0.25, 2.0 ** -1024 * rng.choice([-1.0, 0.0, 1.0])]), hx(a0), hx(b0), n))
        elif kind == 4:
            R.append("c12.integ %s %s %s %d" % (lst([float(rng.randint(1, 3)), float(rng.randint(-3, 3))]), hx(a0), hx(b0), n))
    # reversed limits give the mirror image with every weight negated, bit for bit (theorem gl_reversed)
    for n in (range(0, 65) if not thorough else range(0, 513)):
        cls, a0, b0 = rng.choice(_intervals(rng, 7, thorough))
        R.append("c12.rev %d %s %s" % (n, hx(a0), hx(b0)))
    # rows that are not (root, weight) pairs (fix 455b721): lengths 0, 1, 3, a transposed rule, one bad row among good ones
    for t in range(30 if not thorough else 90):
        nr = rng.randint(1, 6)
        kind = t % 6
        rows = [[dyadic(rng, -4, 4, 2), dyadic(rng, -2, 2, 3)] for _ in range(nr)]
        if kind == 0:
            rows[rng.randrange(nr)] = []
        elif kind == 1:
            rows[rng.randrange(nr)] = [dyadic(rng, -4, 4, 2)]
        elif kind == 2:
            rows[rng.randrange(nr)] = [dyadic(rng, -4, 4, 2) for _ in range(3)]
        elif kind == 3:    # transposed: 2 rows of nr entries (accepted only when nr = 2)
            rows = [[r[0] for r in rows], [r[1] for r in rows]]
        elif kind == 4:
            rows = [[r[0], r[1], 0.0] for r in rows]
        rs = "%d %s" % (len(rows), " ".join(lst(r) for r in rows))
        vals = [dyadic(rng, -8, 8, 3) for _ in range(len(rows))]
        R.append("c12.rowsvals %s %s" % (lst(vals), rs))
        R.append("c12.rowsfunc %s %s" % (lst([dyadic(rng, -4, 4, 2) for _ in range(rng.randint(1, 4))]), rs))
    # overloads on explicit data: equal and mismatched sizes (always including an empty side against a non-empty one)
    for (vals, rw) in (([], [(0.5, 1.0), (1.5, 2.0), (2.5, -1.0)]), ([1.0, 2.0], []), ([], []), ([3.0], [(0.25, 2.0)]), ([3.0], [(0.25, 2.0), (0.5, 1.0)])):
        R.append("c12.sumvals %s %d %s" % (lst(vals), len(rw), " ".join(hx(x) + " " + hx(w) for x, w in rw)))
        R.append("c12.rowsvals %s %d %s" % (lst(vals), len(rw), " ".join(lst([x, w]) for x, w in rw)))
    for t in range(120 if thorough else 40):
        n = rng.randint(0, 12)
        rw = [(dyadic(rng, -8, 8, 3), dyadic(rng, -2, 2, 4)) for _ in range(n)]
        nv = n if t % 3 else max(0, n + rng.choice([-2, -1, 1, 2, 5]))
        if t % 3 == 0 and nv == n:
            nv = n + 1
        vals = [dyadic(rng, -8, 8, 3) for _ in range(nv)]
        R.append("c12.sumvals %s %d %s" % (lst(vals), n, " ".join(hx(x) + " " + hx(w) for x, w in rw)))
        c = [dyadic(rng, -4, 4, 2) for _ in range(rng.randint(1, 5))]
        R.append("c12.sumfunc %s %d %s" % (lst(c), n, " ".join(hx(x) + " " + hx(w) for x, w in rw)))
    # the integrating overload (and agreement of the three overloads on the same rule)
    for t in range(90 if thorough else 30):
        n = rng.choice([1, 2, 3, 4, 5, 7, 8, 16, 30, 31]) if t % 2 else rng.randint(1, 80 if thorough else 40)
        deg = rng.randint(0, min(2 * n - 1, 12))
        c = [float(rng.randint(-9, 9)) / rng.choice([1, 2, 4]) for _ in range(deg + 1)]
        cls, a, b = rng.choice(_intervals(rng, 7, thorough)[:5])
        if cls in ("far", "scaled") and t % 2:
            a, b = rng.uniform(-3, 3), rng.uniform(-3, 3)
        R.append("c12.integ %s %s %s %d" % (lst(c), hx(a), hx(b), n))
    for t in range(6):
        c = [float(rng.randint(-9, 9)) for _ in range(rng.randint(1, 8))]
        a = rng.uniform(-3, 3)
        R.append("c12.default %s %s %s" % (lst(c), hx(a), hx(a + rng.uniform(-3, 3))))
    ctx["reqs"] = R
    ctx["clsmap"] = {R[i]: c for i, c in ctx["cls"].items()}
    ctx["worst"] = {}
    return R


# --------------------------------------------------------------------------------------------------
# oracle: the property evaluated on the implementation's own nodes and weights
# --------------------------------------------------------------------------------------------------

def _fx(q):
    """Fraction -> fixed point (rounded down)"""
    return (q.numerator << P) // q.denominator


def _worst(ctx, key, v):
    if v > ctx["worst"].get(key, 0):
        ctx["worst"][key] = v


def oracle_cheap_fast(n, a, b, xs, ws, ctx):
    """the cheap clauses (inside, monotone, signs, symmetry, sum of the weights) in exact INTEGER arithmetic on a common
    binary scale - same clauses and tolerances as oracle_rule, for the exhaustive orders 513..4000"""
    if any(math.isnan(v) or math.isinf(v) for v in xs + ws):
        return [("nodes/weights not finite", "")]
    vals = [v for v in xs + ws + [a, b] if v != 0.0]
    E = min(math.frexp(v)[1] for v in vals) - 53
    def ti(v):
        if v == 0.0:
            return 0
        m, e = math.frexp(v)
        return int(m * 9007199254740992.0) << (e - 53 - E)
    X = [ti(v) for v in xs]; W = [ti(v) for v in ws]; A = ti(a); B = ti(b)
    out = []
    sgn = 1 if B > A else -1
    lo, hi = min(A, B), max(A, B)
    if not all(lo < x < hi for x in X):
        out.append(("a node is not strictly inside the interval", ""))
    if not all((X[i + 1] - X[i]) * sgn > 0 for i in range(n - 1)):
        out.append(("nodes are not strictly monotone in the direction of the limits", ""))
    if not all(w * sgn > 0 for w in W):
        out.append(("a weight does not have the sign of b-a", ""))
    sc = abs(A) + abs(B)
    for k in range(n // 2 + 1):
        d = abs(X[k] + X[n - 1 - k] - (A + B))
        if d * (1 << 53) > 2 * sc:
            out.append(("nodes not symmetric about the midpoint", "k=%d" % k)); break
        if ws[k] != ws[n - 1 - k]:
            out.append(("weights not symmetric", "k=%d" % k)); break
    L = abs(b - a)
    mid, h = 0.5 * a + 0.5 * b, 0.5 * b - 0.5 * a
    Sc = 0.0
    for x, w in zip(xs, ws):
        t = (x - mid) / h
        Sc += abs(w) * 2 * abs(t) / max(1 - t * t, 1e-300)
    tol = float(EPS) * (NODE_ULPS * Sc + K_SUM * L) * (1 + 1e-9)
    d = abs(sum(W) - (B - A))
    dflt = float(Fraction(d) * Fraction(2) ** E) if E >= 0 else float(Fraction(d, 2 ** (-E)))
    _worst(ctx, "sumw/tol", dflt / tol if tol else 0.0)
    if dflt > tol:
        out.append(("weights do not sum to b-a", "defect %.3g of %.3g (tolerance %.3g)" % (dflt, L, tol)))
    return out


def oracle_rule(n, a, b, xs, ws, ctx, cheap=False):
    """xs, ws: floats as returned by the implementation.  Returns a list of (clause, detail)."""
    out = []
    A, B = Fraction(a), Fraction(b)
    if n == 0:
        return out
    if any(math.isnan(v) or math.isinf(v) for v in xs + ws):
        return [("nodes/weights not finite", "")]
    X = [Fraction(v) for v in xs]
    W = [Fraction(v) for v in ws]
    sgn = 1 if B > A else -1
    lo, hi = min(A, B), max(A, B)
    if not all(lo < x < hi for x in X):
        out.append(("a node is not strictly inside the interval", ""))
    if not all((X[i + 1] - X[i]) * sgn > 0 for i in range(n - 1)):
        out.append(("nodes are not strictly monotone in the direction of the limits", ""))
    if not all(w * sgn > 0 for w in W):
        out.append(("a weight does not have the sign of b-a", ""))
    sc = abs(A) + abs(B)
    for k in range(n // 2 + 1):
        d = abs(X[k] + X[n - 1 - k] - (A + B))
        _worst(ctx, "sym/eps/(|a|+|b|)", float(d / (EPS * sc)))
        if d > 2 * EPS * sc:   # proven bound: one rounding of a+b and one of each node, same fl(h z) on both sides
            out.append(("nodes not symmetric about the midpoint", "k=%d defect %.3g" % (k, float(d)))); break
        if ws[k] != ws[n - 1 - k]:
            out.append(("weights not symmetric", "k=%d" % k)); break
    L = abs(B - A)
    growth = 1 + Fraction(n, 64)
    mid, h = (A + B) / 2, (B - A) / 2
    Tq = [(x - mid) / h for x in X]
    cond = [2 * abs(t) / (1 - t * t) for t in Tq]          # P''/P' at the node
    newton = NEWTON * sum(abs(w) * c for w, c in zip(W, cond))   # stopping tolerance propagated to sum |dw|
    d = abs(sum(W) - (B - A))
    tol = newton + K_SUM * EPS * L
    _worst(ctx, "sumw/tol", float(d / tol))
    if d > tol:
        out.append(("weights do not sum to b-a", "defect %.3g of %.3g (tolerance %.3g)" % (float(d), float(L), float(tol))))
    if out or cheap:
        return out
    # exactness in the Legendre basis of the interval: sum_i w_i P_k(t_i) = 0 (k>=1), = b-a (k=0)
    dmax = min(2 * n - 1, 60)
    T = [_fx(t) for t in Tq]
    Wf = [_fx(w / h) for w in W]     # weights of the rule on [-1,1]
    p0 = [ONE] * n
    p1 = list(T)
    ncond = float(sc / L)             # node rounding relative to the half width
    for k in range(1, dmax + 1):
        s = sum((w * p) >> P for w, p in zip(Wf, p1))
        # tolerance, flat in the degree and in the order (audit probe: worst 2.7 in these units): node rounding
        # 2^-53 (|a|+|b|)/h relative to the half width enters through ncond, on the scale sum |w| = 2
        tol = 16 * 2.0 ** -53 * 2 * (1 + ncond)
        r = abs(s) / ONE
        _worst(ctx, "legendre-residual/tol", r / tol)
        if r > tol:
            out.append(("polynomial of degree <= 2n-1 not integrated exactly (Legendre basis)",
                        "degree %d of max %d: residual %.3g (tolerance %.3g)" % (k, dmax, r, tol)))
            break
        if k < dmax:
            p0, p1 = p1, [(((2 * k + 1) * ((t * q) >> P)) - k * r0) // (k + 1) for t, q, r0 in zip(T, p1, p0)]
    # monomials x^k on the interval itself (conditioning: relative to sum |w||x|^k); exact integer arithmetic
    if not out and n <= 128:
        sx = max(x.denominator for x in X); sw = max(w.denominator for w in W)   # powers of two
        Xi = [int(x * sx) for x in X]; Wi = [int(w * sw) for w in W]
        Ci = [int(c * (1 << 20)) + 1 for c in cond]
        pw = [1] * n
        den = sw
        for k in range(0, dmax + 1):
            s = Fraction(sum(w * p for w, p in zip(Wi, pw)), den)
            sa = Fraction(sum(abs(w * p) for w, p in zip(Wi, pw)), den)
            sn = Fraction(sum(abs(w * p) * c for w, p, c in zip(Wi, pw, Ci)), den << 20)
            exact = (B ** (k + 1) - A ** (k + 1)) / (k + 1)
            tol = NEWTON * sn + Fraction(64 * (k + 4)) * EPS * sa * growth
            _worst(ctx, "monomial-residual/tol", float(abs(s - exact) / tol) if tol else 0.0)
            if abs(s - exact) > tol:
                out.append(("polynomial of degree <= 2n-1 not integrated exactly (monomial)",
                            "x^%d: %.17g vs exact %.17g" % (k, float(s), float(exact))))
                break
            pw = [p * x for p, x in zip(pw, Xi)]
            den *= sx
    # moments about the left limit, (x-a)^k: the sharp exactness test on intervals far from the origin.  Exact integer
    # arithmetic; tolerance = Newton stopping tolerance propagated + rounding of the weights + the nodes' ulp
    # (|x_i| 2^-53 each, entering through k (x-a)^(k-1))
    if not out and n <= 128:
        D = [x - A for x in X]
        sd = max(d.denominator for d in D); sw = max(w.denominator for w in W)
        Di = [int(d * sd) for d in D]; Wi = [int(w * sw) for w in W]
        Ci = [int(c * (1 << 20)) + 1 for c in cond]
        nodeulp = max(abs(A), abs(B)) * EPS * 4          # rounding of mid -+ h z
        pw = [1] * n; pwprev = [0] * n
        den = sw; denprev = sw
        for k in range(0, min(2 * n - 1, 20) + 1):
            s = Fraction(sum(w * p for w, p in zip(Wi, pw)), den)
            sa = Fraction(sum(abs(w * p) for w, p in zip(Wi, pw)), den)
            sn = Fraction(sum(abs(w * p) * c for w, p, c in zip(Wi, pw, Ci)), den << 20)
            sp = Fraction(sum(abs(w * p) for w, p in zip(Wi, pwprev)), denprev) if k else Fraction(0)
            exact = (B - A) ** (k + 1) / (k + 1)
            tol = NEWTON * sn + Fraction(64 * (k + 4)) * EPS * sa * growth + 4 * k * sp * nodeulp
            _worst(ctx, "shifted-moment-residual/tol", float(abs(s - exact) / tol) if tol else 0.0)
            if abs(s - exact) > tol:
                out.append(("polynomial of degree <= 2n-1 not integrated exactly (moment about the lower limit)",
                            "(x-a)^%d: %.17g vs exact %.17g" % (k, float(s), float(exact))))
                break
            pwprev, denprev = pw, den
            pw = [p * d for p, d in zip(pw, Di)]
            den *= sd
    return out


def _parse_rule(impl):
    t = toks(impl)
    n = int(t[0]); pos = 1
    xs, ws = [], []
    for _ in range(n):
        if int(t[pos]) != 2:
            return None
        xs.append(fl(t[pos + 1])); ws.append(fl(t[pos + 2])); pos += 3
    return xs, ws


def _poly(c, x):
    r = Fraction(0)
    for a in reversed(c):
        r = a + x * r
    return r


def _cmp_model(n, x0, x1, xs, ws, tm, idx, orc, ctx):
    """class B: the implementation's entries `idx` against the model's (tokens tm: x w x w ...)"""
    sc = abs(Fraction(x0)) + abs(Fraction(x1))
    mid, h = (Fraction(x0) + Fraction(x1)) / 2, (Fraction(x1) - Fraction(x0)) / 2
    growth = 1 + Fraction(n, 64)
    bad = None
    for j, k in enumerate(idx):
        mx, mw = fr(tm[2 * j]), fr(tm[1 + 2 * j])
        dx, dw = abs(Fraction(xs[k]) - mx), abs(Fraction(ws[k]) - mw)
        t = (mx - mid) / h if h else Fraction(0)
        cnd = 2 * abs(t) / (1 - t * t) if abs(t) < 1 else Fraction(0)
        tolw = abs(mw) * K_WEIGHT * EPS * (1 + cnd + Fraction(n, 4))
        if sc:
            _worst(ctx, "node/eps/(|a|+|b|)", float(dx / (EPS * sc)))
        if tolw:
            _worst(ctx, "weight/tol", float(dw / tolw))
        if bad is None and (dx > K_NODE * EPS * sc or dw > tolw):
            bad = (k, float(dx), float(dw))
    if bad:
        return [fail("prop" if orc else "corr", "nodes/weights differ from the reference rule",
                     "n=%d index %d: |dx|=%.3g |dw|=%.3g" % ((n,) + bad))]
    return []


def _parse_rules(t, pos, k):
    """k consecutive rules `n (2 x w)*n` from token list t; returns (list of (xs, ws) or None, pos)"""
    rules = []
    for _ in range(k):
        n = int(t[pos]); pos += 1
        xs, ws = [], []
        for _ in range(n):
            if int(t[pos]) != 2:
                return None, pos
            xs.append(t[pos + 1]); ws.append(t[pos + 2]); pos += 3
        rules.append((xs, ws))
    return rules, pos


def compare_seq(rq, impl, model, ctx):
    """history (class D, theorem gl_history_independent): every rule of a sequence computed in one process is
    bit-identical to the same rule computed alone in a fresh process, and is a valid rule"""
    a = rq.split()[1:]
    k = int(a[0])
    mem = [(int(a[1 + 3 * i]), fl(a[2 + 3 * i]), fl(a[3 + 3 * i])) for i in range(k)]
    fs, both = std_outcome(rq, impl, model)
    if tag(impl) == "timeout":
        return [fail("prop", "Newton iteration does not terminate", rq[:80])]
    if tag(impl) != "ok":
        return fs or [fail("prop", "rule computation failed", impl[:100])]
    t = toks(impl)
    seq, pos = _parse_rules(t, 1, k)
    if seq is None or pos >= len(t) or t[pos] != "alone":
        return [fail("prop", "rule does not have n rows of (node, weight)", impl[:100])]
    alone, pos = _parse_rules(t, pos + 1, k)
    if alone is None:
        return [fail("prop", "rule does not have n rows of (node, weight)", impl[:100])]
    out = list(fs)
    ctx["nontrivial"].add(("c12.seq", tuple((n, (n + 1) // 2) for n, _, _ in mem)))
    bump(ctx, "seq:shared-half" if any(mem[i][0] != mem[i + 1][0] and (mem[i][0] + 1) // 2 == (mem[i + 1][0] + 1) // 2
                                       for i in range(k - 1)) else "seq:other")
    tm = toks(model) if tag(model) == "ok" else None
    mpos = 1
    for i, (n, x0, x1) in enumerate(mem):
        (sx, sw), (ax, aw) = seq[i], alone[i]
        hist = " after " + ", ".join("n=%d [%r,%r]" % m_ for m_ in mem[:i]) if i else " (first of the sequence)"
        if (sx, sw) != (ax, aw):
            out.append(fail("prop", "Gauss-Legendre rule depends on the calls made before it",
                            "n=%d [%r,%r]%s: differs from the rule computed alone in a fresh process" % (n, x0, x1, hist)))
        if len(sx) != n:
            out.append(fail("prop", "rule does not have n rows of (node, weight)", "n=%d%s" % (n, hist)))
        else:
            xs, ws = [fl(v) for v in sx], [fl(v) for v in sw]
            orc = oracle_rule(n, x0, x1, xs, ws, ctx)
            for clause, det in orc:
                out.append(fail("prop", clause, "n=%d [%r,%r]%s %s" % (n, x0, x1, hist, det)))
            if tm is not None:
                cnt = int(tm[mpos])
                if cnt == n:
                    out += _cmp_model(n, x0, x1, xs, ws, tm[mpos + 1:mpos + 1 + 2 * n], list(range(n)), bool(orc), ctx)
        if tm is not None:
            mpos += 1 + 2 * int(tm[mpos])
    return out


def compare_iseq(rq, impl, model, ctx):
    """history of the integrating overload (theorem integ_history_independent): bit-identical to the same call alone and
    to the two rule-taking overloads on Compute_(n,a,b); exact on polynomials of degree <= 2n-1"""
    a = rq.split()[1:]
    nc = int(a[0])
    c = [Fraction(fl(t)) for t in a[1:1 + nc]]
    k = int(a[1 + nc])
    mem = [(int(a[2 + nc + 3 * i]), fl(a[3 + nc + 3 * i]), fl(a[4 + nc + 3 * i])) for i in range(k)]
    fs, both = std_outcome(rq, impl, model)
    if tag(impl) == "timeout":
        return [fail("prop", "Newton iteration does not terminate", rq[:80])]
    if tag(impl) != "ok":
        return fs or [fail("prop", "integration failed", impl[:100])]
    t = toks(impl)
    if len(t) != 2 + 4 * k or t[k + 1] != "alone":
        return fs + [fail("corr", "protocol", impl[:100])]
    out = list(fs)
    ctx["nontrivial"].add(("c12.iseq", tuple((n, Fraction(x1) - Fraction(x0)) for n, x0, x1 in mem)))
    tm = toks(model)[1:] if tag(model) == "ok" else None
    for i, (n, x0, x1) in enumerate(mem):
        sv = t[1 + i]
        r1, r2, r3 = t[k + 2 + 3 * i:k + 5 + 3 * i]
        hist = "Integrate_Gauss_Legendre(f, %r, %r, %d) after [%s]" % (x0, x1, n, "; ".join("(%r,%r,n=%d)" % (p, q, m_) for m_, p, q in mem[:i]))
        if sv != r1:
            out.append(fail("prop", "Gauss-Legendre rule depends on the calls made before it",
                            "%s returned %r, alone in a fresh process %r" % (hist, fl(sv), fl(r1))))
        if not (sv == r2 == r3):
            out.append(fail("prop", "the three Integrate_Gauss_Legendre overloads disagree on the same rule",
                            "%s returned %r, the rule-taking overloads on Compute_(n,a,b) %r / %r" % (hist, fl(sv), fl(r2), fl(r3))))
        A, B = Fraction(x0), Fraction(x1)
        if len(c) - 1 <= 2 * n - 1:
            exact = sum(ck * (B ** (j + 1) - A ** (j + 1)) / (j + 1) for j, ck in enumerate(c))
            scale = sum(abs(ck) * max(abs(A), abs(B)) ** j for j, ck in enumerate(c)) * abs(B - A)
            tol = Fraction(4 * (len(c) + 4)) * EPS * scale
            v = fl(sv)
            if math.isnan(v) or math.isinf(v) or abs(Fraction(v) - exact) > tol:
                out.append(fail("prop", "polynomial of degree <= 2n-1 not integrated exactly (integrating overload)",
                                "%s: %r vs %.17g" % (hist, v, float(exact))))
            elif tm is not None and abs(fr(tm[i]) - exact) > tol:
                out.append(fail("corr", "integrating overload differs from the model", "member %d" % i))
    return out


def _padd(p, q):
    n = max(len(p), len(q))
    return [(p[i] if i < len(p) else 0) + (q[i] if i < len(q) else 0) for i in range(n)]


def _pmul(p, q):
    r = [Fraction(0)] * (len(p) + len(q) - 1)
    for i, x in enumerate(p):
        for j, y in enumerate(q):
            r[i + j] += x * y
    return r


def _ppow(p, k):
    r = [Fraction(1)]
    for _ in range(k):
        r = _pmul(r, p)
    return r


def compare_rev(rq, impl, model, ctx):
    """'for reversed limits the rule is the mirror image with all weights negated' - bit for bit (theorem gl_reversed;
    the middle root of an odd rule is exactly 0 in the code as in the model)"""
    a = rq.split()[1:]
    n = int(a[0])
    fs, both = std_outcome(rq, impl, model)
    if tag(impl) == "timeout":
        return [fail("prop", "Newton iteration does not terminate", "n=%d" % n)]
    if not both:
        return fs
    rules, pos = _parse_rules(toks(impl), 0, 2)
    if rules is None or len(rules[0][0]) != n or len(rules[1][0]) != n:
        return fs + [fail("prop", "rule does not have n rows of (node, weight)", impl[:100])]
    (fx, fw), (rx, rw) = rules
    ctx["nontrivial"].add(("c12.rev", n))
    sc = abs(Fraction(fl(a[1]))) + abs(Fraction(fl(a[2])))
    for k in range(n):
        if 2 * k == n - 1 and fl(rw[k]) == -fl(fw[k]) and abs(Fraction(fl(rx[k])) - Fraction(fl(fx[k]))) <= 2 * EPS * sc:
            # the middle node of an odd rule is mid + h z resp. mid - h z with the middle root z, which the Newton
            # iteration leaves at ~1e-32 instead of exactly 0 for some orders (29, 39, 49, ...): equal to rounding only
            if fl(rx[k]) != fl(fx[k]):
                bump(ctx, "rev:middle-node-differs-by-2hz")
            continue
        if not (fl(rx[k]) == fl(fx[n - 1 - k]) and fl(rw[k]) == -fl(fw[n - 1 - k])):
            return fs + [fail("prop", "reversed limits do not give the mirror image with all weights negated",
                              "n=%d [%s,%s]: entry %d of the reversed rule (%r, %r) vs entry %d of the forward rule (%r, %r)"
                              % (n, a[1], a[2], k, fl(rx[k]), fl(rw[k]), n - 1 - k, fl(fx[n - 1 - k]), fl(fw[n - 1 - k])))]
    return fs


def compare_rows(rq, impl, model, ctx):
    """rule-taking overloads on raw rows (fix 455b721, theorem gl_row_shape): a row that is not a (root, weight) pair is a
    diagnostic; otherwise the exact weighted sum (dyadic data: exact in double)"""
    fs, both = std_outcome(rq, impl, model)
    ctx["nontrivial"].add((rq.split()[0], tag(model), len(rq.split()) // 6))
    if not both:
        return fs
    v, m = fl(toks(impl)[0]), fr(toks(model)[0])
    if Fraction(v) != m:
        return fs + [fail("prop", "overload does not return the weighted sum of the values", "%r vs %s" % (v, float(m)))]
    return fs


def compare_reent(rq, impl, model, ctx):
    """re-entrancy (theorems nestedGL_eq / nestedGL_exact): nested use of the integrating overload with limits that
    depend on the outer variable equals the same computation through the rule-taking overloads, bit for bit, and the
    exact iterated integral of the polynomial"""
    a = rq.split()[1:]
    nO, nI = int(a[0]), int(a[1])
    x0, x1, l0, l1, h0, h1 = [Fraction(fl(t)) for t in a[2:8]]
    k = int(a[8])
    ts = [(Fraction(fl(a[9 + 3 * t])), int(a[10 + 3 * t]), int(a[11 + 3 * t])) for t in range(k)]
    fs, both = std_outcome(rq, impl, model)
    ctx["nontrivial"].add(("c12.reent", nO, nI, l1 != 0 or h1 != 0))
    if not both:
        if tag(impl) == "err" and tag(model) == "ok":
            return [fail("prop", "the three Integrate_Gauss_Legendre overloads disagree on the same rule",
                         "nested use of overload (func,a,b,n) stopped with a diagnostic (nOut=%d, nIn=%d)" % (nO, nI))]
        return fs
    v = [fl(t) for t in toks(impl)]
    out = list(fs)
    if not (toks(impl)[0] == toks(impl)[1] == toks(impl)[2] == toks(impl)[3]):
        out.append(fail("prop", "the three Integrate_Gauss_Legendre overloads disagree on the same rule",
                        "nested use, inner limits depending on the outer variable (nOut=%d, nIn=%d): overload 1 at both levels %r, "
                        "explicit rules with overload 2 %r, overload 3 %r, overload 1 outside / explicit rule inside %r"
                        % (nO, nI, v[0], v[1], v[2], v[3])))
    # exact iterated integral: inner antiderivative is a polynomial in x
    lo, hi = [l0, l1], [h0, h1]
    tot = Fraction(0)
    scale = Fraction(0)
    X = max(abs(x0), abs(x1))
    Y = max(abs(l0) + abs(l1) * X, abs(h0) + abs(h1) * X)
    Wd = abs(h0 - l0) + abs(h1 - l1) * X
    exactable = True
    for c, i, j in ts:
        inner = [t / (j + 1) for t in _padd(_ppow(hi, j + 1), [-t for t in _ppow(lo, j + 1)])]
        poly = _pmul([Fraction(0)] * i + [Fraction(1)], inner)
        tot += c * sum(ck * (x1 ** (m + 1) - x0 ** (m + 1)) / (m + 1) for m, ck in enumerate(poly))
        scale += abs(c) * X ** i * Y ** j * Wd * abs(x1 - x0)
        if j > 2 * nI - 1 or i + j + 1 > 2 * nO - 1:
            exactable = False
    if exactable:
        tol = Fraction(64) * EPS * scale
        if scale:
            _worst(ctx, "reent/tol", float(abs(Fraction(v[0]) - tot) / tol))
        if math.isnan(v[0]) or math.isinf(v[0]) or abs(Fraction(v[0]) - tot) > tol:
            out.append(fail("prop", "polynomial of degree <= 2n-1 not integrated exactly (integrating overload)",
                            "nested use (nOut=%d, nIn=%d): %r vs exact iterated integral %.17g" % (nO, nI, v[0], float(tot))))
        elif abs(fr(toks(model)[0]) - tot) > tol:
            out.append(fail("corr", "nested integrating overload differs from the model", "%s" % float(fr(toks(model)[0]))))
    return out


def compare(rq, impl, model, ctx):
    op = rq.split(" ", 1)[0]
    a = rq.split()[1:]
    bump(ctx, op)
    ctx.setdefault("worst", {})
    if op == "c12.selftest":
        if tag(model) != "ok" or any(abs(fr(t)) > Fraction(1, 10 ** 50) for t in toks(model)):
            return [fail("corr", "driver self-test (Taylor cosine / pi) failed", model[:200])]
        return []
    if op == "c12.default":
        if tag(impl) != "ok":
            return [fail("prop", "default-argument call crashed", impl[:100])]
        t = toks(impl)
        if t[0] != t[1] or t[2] != "1":
            return [fail("prop", "default arguments are not n=30 / [-1,1]", impl[:100])]
        ctx["nontrivial"].add((op,))
        return []
    if op == "c12.seq":
        return compare_seq(rq, impl, model, ctx)
    if op == "c12.iseq":
        return compare_iseq(rq, impl, model, ctx)
    if op == "c12.reent":
        return compare_reent(rq, impl, model, ctx)
    if op == "c12.rev":
        return compare_rev(rq, impl, model, ctx)
    if op in ("c12.rowsvals", "c12.rowsfunc"):
        return compare_rows(rq, impl, model, ctx)
    fs, both = std_outcome(rq, impl, model)
    if op in ("c12.rule", "c12.sel"):
        n, x0, x1 = int(a[0]), fl(a[1]), fl(a[2])
        cls = ctx.get("clsmap", {}).get(rq, "replay")
        bump(ctx, "interval:" + cls)
        bump(ctx, "n<=8" if n <= 8 else "n<=64" if n <= 64 else "n<=512" if n <= 512 else "n>512")
        if tag(impl) == "timeout":
            return [fail("prop", "Newton iteration does not terminate", "n=%d" % n)]
        if tag(impl) != "ok":
            return fs or [fail("prop", "rule computation failed", impl[:100])]
        pr = _parse_rule(impl)
        if pr is None or len(pr[0]) != n:
            return [fail("prop", "rule does not have n rows of (node, weight)", impl[:100])]
        xs, ws = pr
        out = list(fs)
        # the property itself on the implementation's output
        orc = oracle_cheap_fast(n, x0, x1, xs, ws, ctx) if cls.startswith("exh:") else oracle_rule(n, x0, x1, xs, ws, ctx)
        for clause, det in orc:
            out.append(fail("prop", clause, "n=%d [%r,%r] %s" % (n, x0, x1, det)))
        if any(math.isnan(v) or math.isinf(v) for v in xs + ws):
            return out      # (reported above as 'nodes/weights not finite')
        if tag(model) == "ok":
            ctx["nontrivial"].add((op, n, cls))
            tm = toks(model)
            cnt = int(tm[0])
            idx = list(range(n)) if op == "c12.rule" else [int(t) for t in a[4:4 + int(a[3])]]
            if cnt != len(idx):
                return out + [fail("corr", "model answered a different number of entries", "")]
            out += _cmp_model(n, x0, x1, xs, ws, tm[1:], idx, bool(orc), ctx)
        return out
    if op in ("c12.sumvals", "c12.sumfunc"):
        nv = int(a[0])
        ctx["nontrivial"].add((op, tag(model), nv))
        if not both:
            return fs
        ti, tm = toks(impl), toks(model)
        v = fl(ti[0]); m = fr(tm[0])
        # dyadic inputs with few bits: the sum is exact in double
        if Fraction(v) != m:
            return fs + [fail("prop", "overload does not return the weighted sum of the values", "%r vs %s" % (v, float(m)))]
        if op == "c12.sumfunc":
            n = int(a[1 + nv])
            nodes = [fl(a[2 + nv + 2 * i]) for i in range(n)]
            seen = [fl(t) for t in ti[2:]]
            if seen != nodes:
                return fs + [fail("prop", "function overload does not evaluate the integrand at the nodes of the rule, in order", "")]
        return fs
    if op == "c12.integ":
        nc = int(a[0])
        c = [Fraction(fl(t)) for t in a[1:1 + nc]]
        x0, x1, n = fl(a[1 + nc]), fl(a[2 + nc]), int(a[3 + nc])
        if not both:
            return fs
        ctx["nontrivial"].add((op, n, nc))
        r = [fl(t) for t in toks(impl)]
        m = fr(toks(model)[0])
        out = list(fs)
        if any(math.isnan(v) or math.isinf(v) for v in r):
            return out + [fail("prop", "polynomial of degree <= 2n-1 not integrated exactly (integrating overload)",
                               "result not finite on [%r, %r] with n=%d: %r" % (x0, x1, n, r))]
        if not (r[0] == r[1] == r[2]):
            out.append(fail("prop", "the three Integrate_Gauss_Legendre overloads disagree on the same rule", repr(r)))
        A, B = Fraction(x0), Fraction(x1)
        # exact integral (degree <= 2n-1): the model's rule is exact to 1e-27, so model ~ exact
        exact = sum(ck * (B ** (k + 1) - A ** (k + 1)) / (k + 1) for k, ck in enumerate(c))
        scale = sum(abs(ck) * max(abs(A), abs(B)) ** k for k, ck in enumerate(c)) * abs(B - A)
        tol = Fraction(4 * (nc + 4)) * EPS * scale
        if scale:
            _worst(ctx, "integ/tol", float(abs(Fraction(r[0]) - exact) / tol))
        if abs(Fraction(r[0]) - exact) > tol:
            out.append(fail("prop", "polynomial of degree <= 2n-1 not integrated exactly (integrating overload)",
                            "%r vs %.17g" % (r[0], float(exact))))
        elif abs(Fraction(r[0]) - m) > tol:
            out.append(fail("corr", "integrating overload differs from the model", "%r vs %.17g" % (r[0], float(m))))
        return out
    return fs + [fail("corr", "unknown op in comparator", op)]


def oracle_only(rq, impl, ctx):
    op = rq.split(" ", 1)[0]
    if op == "c12.seq":
        return [f for f in compare_seq(rq, impl, "undef", ctx) if f["kind"] == "prop"]
    if op == "c12.iseq":
        return [f for f in compare_iseq(rq, impl, "undef", ctx) if f["kind"] == "prop"]
    if op == "c12.rev":
        return [f for f in compare_rev(rq, impl, "ok", ctx) if f["kind"] == "prop"]
    a = rq.split()[1:]
    if op in ("c12.rule", "c12.sel") and tag(impl) == "ok":
        n, x0, x1 = int(a[0]), fl(a[1]), fl(a[2])
        pr = _parse_rule(impl)
        if pr is None or len(pr[0]) != n:
            return [fail("prop", "rule does not have n rows of (node, weight)", "")]
        return [fail("prop", c, d) for c, d in oracle_rule(n, x0, x1, pr[0], pr[1], ctx)]
    return []


def finalize(ctx, exe):
    if os.environ.get("C12_CALIB"):
        import sys
        for k, v in sorted(ctx["worst"].items()):
            print("  calib %-40s %.4g" % (k, v), file=sys.stderr)
    ctx["stats"].update({"worst:" + k: round(v, 3) for k, v in ctx["worst"].items()})
    return []
