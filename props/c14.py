"""C14 — Monte-Carlo integrators sample only inside the region and forget earlier calls."""
import math, random
from fractions import Fraction
from common import *

RULE = ("requests are drawn from VERIF_SEED: method x dimension 1..6 x region family (unit, offset, anisotropic, widths 1e-3..1e3) x "
        "budget x integrand family; a case is non-trivial when the integrator ran and its bounding box / value / history "
        "comparison was evaluated; counted once per (op, method, dimension, integrand family, region class)")
CORR_ONLY = ["'within six standard errors' (standard error estimated from repeated fixed seeds): oracle on the implementation only",
             "Vegas integrates constants only to ~1e-8 relative (zero-variance first iteration), observed: known finding C14-vegas-constants; brute force and Miser to rounding",
             "Vegas sampling and grid refinement iterations as a whole (modelled and proved: per-axis sample formula and bin index, "
             "Rebin with its grid invariant and read-set, re-initialisation of the scalars and of the arrays xi/dx/kg/d/di with init = 0)",
             "history independence of Vegas and brute force beyond the model (class D, bit-for-bit against a fresh process)"]
ASSUMPTIONS = ["std::random_device::_M_getval is the only entropy source of the integrators (interposed by the harness with a fixed value)",
               "std::mt19937 / generate_canonical as in libstdc++ 12 (validated by C18)",
               "Miser: x^(2/3) by a 2^-300 Newton cube root in the driver; TINY/BIG floors (1e-30/1e30) not modelled",
               "OUTSIDE THE STATEMENT (audit D2): an OUTER Vegas/Miser integration is corrupted by an integration run INSIDE its integrand (outer 2-D Vegas "
               "returned the inner result after 108 evaluations; outer Miser differs in the 3rd digit): the statement speaks of integrations run BEFORE the "
               "observed call, and the function-local statics are the documented restart feature of Integrate_MC_Vegas(init > 0); recorded as the statistic "
               "outer_with_nested_inner:* in the evidence, never a failure",
               "Vegas accuracy clauses start at 100 calls (property quantifier: budgets 1e3..1e6); at the smallest accepted budget (2 calls) a constant 1 on "
               "[0,1]x[1,3] returns 0.68 instead of 2 - outside the quantifier, only outcome/containment/evaluation count are checked there",
               "the bin-index clamp of fix 66169b8 is not observable from outside (it needs a uniform deviate of exactly 0): detector = Lean obligation vegas_ia_range_unconditional"]
TRUSTED = ["scipy.special.ndtr as reference for Gaussian integrals",
           "translators/constants.py (regenerates lean/LpModel/C14/Constants.lean from the anchored numeric literals of the current source before every lake build; a missing anchor falls back to the committed default and is recorded in notes.pre_build.anchor_missing)"]

# ---------------------------------------------------------------------------------------------------
# translator tie (DESIGN.md §4.5): MNPT, MNBS, PFAC, TINY, BIG, 2 (of 2*MNPT), dith of Miser / Integrate_MC_Miser and NDMX, MXDIM of
# Integrate_MC_Vegas (src/Integration.cpp) are read from the source under check into lean/LpModel/C14/Constants.lean (namespace Lp.C14.K)
# ---------------------------------------------------------------------------------------------------

def pre_build(c):
    """regenerate lean/LpModel/C14/Constants.lean from the repository under check (called by check.py with
    the lake lock held, before `lake build`); a missing anchor is recorded, never an alarm"""
    import importlib.util, os
    spec = importlib.util.spec_from_file_location("lp_constants_tr", os.path.join(c["verif"], "translators", "constants.py"))
    m = importlib.util.module_from_spec(spec)
    spec.loader.exec_module(m)
    return m.regenerate("C14", c["repo"], c["lean"])

METHODS = ["Monte-Carlo", "Vegas", "Miser"]


def region_of(rng, d, kind):
    lo, hi = [], []
    for i in range(d):
        if kind == 0:
            a, w = 0.0, 1.0
        elif kind == 1:                                  # offset, dyadic
            a, w = dyadic(rng, -8, 8, 2), rng.choice([0.5, 1.0, 2.0, 4.0])
        elif kind == 2:                                  # anisotropic widths 1e-3..1e3
            w = 10.0 ** rng.uniform(-3, 3); a = rng.uniform(-2, 2) * w
        else:                                            # far offset
            w = 10.0 ** rng.uniform(-1, 1); a = rng.choice([-1, 1]) * 10.0 ** rng.uniform(0, 3)
        lo.append(a); hi.append(a + w)
    return lo, hi


def params_of(rng, fid, lo, hi, smooth=False):
    d = len(lo)
    if fid == 0:
        return [rng.choice([2.5, -1.0, 1.0, 0.001, 1e4])]
    if fid == 3:
        # keep |a*x| <= 2 on the region so that exp() neither overflows nor underflows
        return [rng.uniform(-1.0, 2.0) / max(abs(lo[i]), abs(hi[i]), hi[i] - lo[i]) for i in range(d)]
    if fid == 4:
        w = min(hi[i] - lo[i] for i in range(d))
        c = [lo[i] + rng.uniform(0.2, 0.8) * (hi[i] - lo[i]) for i in range(d)]
        if smooth:   # six-sigma groups: smooth on the scale of the whole region (no needle the budget cannot resolve)
            return c + [max(hi[i] - lo[i] for i in range(d)) * rng.uniform(0.5, 1.0)]
        return c + [w * rng.uniform(0.3, 1.0)]
    return []


def call_str(method, seed, lo, hi, n, fid, p):
    return "%s %d %d %s %d %d %s" % (method, seed, len(lo), lst(lo + hi), n, fid, lst(p))


def exact_integral(fid, lo, hi, p):
    from scipy.special import ndtr
    d = len(lo)
    vol = 1.0
    for i in range(d):
        vol *= hi[i] - lo[i]
    if fid == 0:
        return p[0] * vol
    if fid in (1, 6):       # 6: the sum over the WHOLE argument vector - equal to the sum of the d coordinates iff x.size() == d
        return sum((hi[i] + lo[i]) / 2 for i in range(d)) * vol
    if fid == 2:
        r = 1.0
        for i in range(d):
            r *= (hi[i] ** 2 - lo[i] ** 2) / 2
        return r
    if fid == 3:
        r = 1.0
        for i in range(d):
            a = p[i]
            r *= (hi[i] - lo[i]) if abs(a) < 1e-300 else (math.exp(-a * lo[i]) - math.exp(-a * hi[i])) / a
        return r
    if fid == 4:
        w = p[d]; r = 1.0
        for i in range(d):
            r *= w * math.sqrt(2 * math.pi) * (ndtr((hi[i] - p[i]) / w) - ndtr((lo[i] - p[i]) / w))
        return r
    if fid == 5:
        return vol + sum((hi[i] ** 3 - lo[i] ** 3) / 3 * vol / (hi[i] - lo[i]) for i in range(d))
    raise ValueError


def fmax_bound(fid, lo, hi, p):
    d = len(lo)
    m = [max(abs(lo[i]), abs(hi[i])) for i in range(d)]
    if fid == 0:
        return abs(p[0])
    if fid in (1, 6):
        return sum(m)
    if fid == 2:
        r = 1.0
        for v in m:
            r *= v
        return r
    if fid == 5:
        return sum(v * v for v in m) + 1
    return 1.0


def generate(tier, seed, ctx):
    rng = random.Random(seed * 7919 + 14)
    th = tier == "thorough"
    R = []
    ctx["groups"] = {}
    # --- class A/B: single calls first in a fresh process; model for brute force and Miser on rational integrands
    for k in range(420 if th else 150):
        method = METHODS[k % 3]
        d = 1 + (k // 3) % 6
        kind = (k // 18) % 4 if k >= 18 else k % 4
        lo, hi = region_of(rng, d, kind)
        fid = [0, 1, 5, 2, 0, 5][(k // 3) % 6] if k % 2 == 0 else rng.choice([0, 1, 2, 5, 3, 4])
        n = rng.choice([60, 100, 500, 1000, 2000] if method != "Vegas" else [1000, 2000, 4000])
        if th and k % 7 == 0:
            n = rng.choice([5000, 20000, 40000])
        if method == "Miser" and k % 11 == 0:
            n = rng.choice([1, 15, 59, 60, 61, 74, 75, 150])
        if method == "Monte-Carlo" and k % 13 == 0:
            n = rng.choice([1, 2, 3])
        R.append("c14.call " + call_str(method, rng.randrange(2 ** 32), lo, hi, n, fid, params_of(rng, fid, lo, hi)))
    # --- guards of Integrate_MC (fix 52605b2): empty / odd-length region, budget < 1 (Vegas < 2) stop with a diagnostic; the
    #     smallest accepted budgets (1, Vegas 2) are meaningful
    for method in METHODS:
        for reg in ([], [0.0], [0.0, 1.0, 2.0]):
            R.append("c14.call %s %d 0 %s %d 0 1 %s" % (method, rng.randrange(2 ** 32), lst(reg), 1000, hx(1.0)))
        for n in (0, -5):
            R.append("c14.call " + call_str(method, rng.randrange(2 ** 32), [0.0], [1.0], n, 0, [1.0]))
        R.append("c14.call " + call_str(method, rng.randrange(2 ** 32), [0.0, 1.0], [1.0, 3.0], 1 if method != "Vegas" else 2, 0, [1.0]))
    R.append("c14.call " + call_str("Vegas", rng.randrange(2 ** 32), [0.0], [1.0], 1, 0, [1.0]))
    # --- ONE region vector object reused across calls (Integrate_MC takes it by non-const reference), with integrations
    #     abandoned LATE (integrand throws after 10..90 % of the budget); an integrand that reads the caller's region vector
    for k in range(120 if th else 48):
        d = rng.randint(1, 4)
        lo, hi = region_of(rng, d, rng.choice([0, 1, 1, 2]))
        items = []
        for j in range(rng.randint(2, 4)):
            method = rng.choice(METHODS) if k % 3 else "Miser"
            n = rng.choice([200, 1000, 3000])
            fid = rng.choice([0, 1, 5, 7])
            par = [rng.choice([2.5, -1.0])] if fid == 0 else []
            if j < 2 and rng.random() < 0.7:
                items.append("A %d %s %d %d %d %s" % (max(1, int(n * rng.uniform(0.1, 0.9))), method, rng.randrange(2 ** 32), n, fid, lst(par)))
            else:
                items.append("C %s %d %d %d %s" % (method, rng.randrange(2 ** 32), n, fid, lst(par)))
        m2 = rng.choice(METHODS)
        items.append("C %s %d %d %d %s" % (m2, rng.randrange(2 ** 32), 1000, rng.choice([0, 7]), lst([2.5])))
        R.append("c14.regobj %d %s %d %s" % (d, lst(lo + hi), len(items), " ".join(items)))
    # --- the integrand reads the WHOLE argument vector (fid 6): its size must be the dimension for every method
    for k in range(90 if th else 36):
        method = METHODS[k % 3]
        d = 1 + (k // 3) % 6
        lo, hi = region_of(rng, d, rng.choice([0, 1, 3]))
        R.append("c14.call " + call_str(method, rng.randrange(2 ** 32), lo, hi, rng.choice([500, 1000, 2000]), 6, []))
        if k % 3 == 1 or k % 4 == 0:
            # after integrations of HIGHER dimension on an offset region (stale coordinates beyond ndim would be summed)
            hd = rng.randint(d + 1, 7) if d < 6 else 6
            hlo, hhi = region_of(rng, min(hd, 6), 3)
            hist = call_str(rng.choice([method, "Vegas"]), rng.randrange(2 ** 32), hlo, hhi, 1000, rng.choice([1, 6]), [])
            R.append("c14.hist %s 1 %s" % (call_str(method, rng.randrange(2 ** 32), lo, hi, 1000, 6, []), hist))
            R.append("c14.histx %s 1 A %d %s T" % (call_str(method, rng.randrange(2 ** 32), lo, hi, 1000, 6, []), rng.choice([3, 400, 999]), hist))
    # --- reversed limits on some axes (oriented sign) and zero-width axes (exactly 0), every method
    for k in range(72 if th else 30):
        method = METHODS[k % 3]
        d = rng.randint(1, 5)
        lo, hi = region_of(rng, d, rng.choice([0, 1, 2]))
        fid = rng.choice([0, 1, 5, 6])
        if k % 2 == 0:
            for i in rng.sample(range(d), rng.randint(1, d)):
                lo[i], hi[i] = hi[i], lo[i]
        else:
            for i in rng.sample(range(d), rng.randint(1, min(d, 2))):
                hi[i] = lo[i]
        R.append("c14.call " + call_str(method, rng.randrange(2 ** 32), lo, hi, rng.choice([200, 1000, 2000]), fid, [2.5] if fid == 0 else []))
        if k % 3 == 0 and d in (2, 3):
            lim = []
            for i in range(d):
                lim += [lo[i], hi[i]]
            R.append("c14.front%d %s %d %s %d %d %s" % (d, METHODS[(k // 3) % 3], rng.randrange(2 ** 32), " ".join(hx(v) for v in lim), rng.choice([1000, 3000]), fid if fid != 6 else 1,
                                                      lst([2.5] if fid == 0 else [])))
    # --- regions far from the origin (|offset| / width up to 1e6, both limits drawn independently) and constants of extreme magnitude
    for k in range(60 if th else 24):
        method = METHODS[k % 3]
        d = rng.randint(1, 6)
        lo, hi = [], []
        for i in range(d):
            if k % 2 == 0:
                w = 10.0 ** rng.uniform(-3, 3); a = rng.choice([-1, 1]) * w * 10.0 ** rng.uniform(0, 6)
                lo.append(a); hi.append(a + w)
            else:
                a, b = mixed_magnitude(rng, -3, 3), mixed_magnitude(rng, -3, 3)
                lo.append(min(a, b)); hi.append(max(a, b) if a != b else a + 1.0)
        fid = rng.choice([0, 1, 5])
        R.append("c14.call " + call_str(method, rng.randrange(2 ** 32), lo, hi, rng.choice([1000, 4000]), fid, [rng.choice([2.5, -1.0])] if fid == 0 else []))
    for method in METHODS:
        for c_ in [1e160, -1e160, 1e-160, 1e-300, 1e200] if th else [1e160, 1e-160]:
            d = rng.randint(1, 3)
            lo, hi = region_of(rng, d, rng.choice([0, 1]))
            R.append("c14.call " + call_str(method, rng.randrange(2 ** 32), lo, hi, 1000, 0, [c_]))
    # --- the Vector overload of Integrate_3D (spherical coordinates) with the Monte-Carlo methods
    for k in range(30 if th else 12):
        r1 = rng.choice([0.0, 0.5, 2.0]); r2 = r1 + rng.choice([0.5, 1.0, 3.0])
        c1 = rng.choice([-1.0, -0.5, 0.0]); c2 = rng.choice([0.25, 0.5, 1.0])
        p1 = rng.choice([0.0, 1.0]); p2 = p1 + rng.choice([1.0, 2.0, 3.0])
        fid = k % 3
        R.append("c14.front3v %s %d %s %d %d %s" % (METHODS[k % 3] if k % 2 else METHODS[(k // 2) % 3], rng.randrange(2 ** 32), " ".join(hx(v) for v in (r1, r2, c1, c2, p1, p2)),
                                                   rng.choice([0, 1000, 4000]), fid, lst([2.5] if fid == 0 else [])))
    # --- STATISTIC (outside the statement, see ASSUMPTIONS): an outer call whose integrand runs a complete inner integration
    for k in range(18 if th else 9):
        method = METHODS[k % 3]
        lo, hi = region_of(rng, 2, 1); ilo, ihi = region_of(rng, rng.randint(1, 3), 1)
        R.append("c14.outer %s %d %s" % (call_str(method, rng.randrange(2 ** 32), lo, hi, 1000, 5, []), rng.choice([1, 100, 500]),
                                        call_str(method, rng.randrange(2 ** 32), ilo, ihi, 500, 1, [])))
    # --- peaked off-centre Gaussians at low budgets in 4..6 dimensions, >= 30 seeds per configuration: bias of the mean
    PK = 40 if th else 30
    cfgs = [(6, 1000, 0.05), (6, 1000, 0.1), (5, 4000, 0.1), (4, 1000, 0.3)] + ([(6, 4000, 0.04), (5, 1000, 0.2), (4, 4000, 0.03), (6, 1000, 0.3)] if th else [])
    ctx["peaked"] = {}
    for gi_, (d, n, wr) in enumerate(cfgs):
        lo, hi = region_of(rng, d, rng.choice([0, 1]))
        wmin = min(hi[i] - lo[i] for i in range(d))
        p = [lo[i] + rng.uniform(0.2, 0.8) * (hi[i] - lo[i]) for i in range(d)] + [wr * wmin]
        for method in ("Vegas", "Monte-Carlo"):
            for _ in range(PK):
                R.append("c14.call " + call_str(method, rng.randrange(2 ** 32), lo, hi, n, 4, p))
                ctx["peaked"][len(R) - 1] = (gi_, method)
    # --- budgets: exact multiples of block sizes (2^k, 1000, 4096) and odd ones - constants exactly, polynomials within 6 sigma
    budgets = [1024, 2048, 4096, 8192, 65536, 3 * 4096, 1000, 1500, 12345, 99999] + ([16384, 32768, 2000, 3000, 10000, 4095, 4097] if th else [])
    for n in budgets:
        for method in METHODS:
            d = rng.randint(1, 4)
            lo, hi = region_of(rng, d, rng.choice([0, 1]))
            R.append("c14.call " + call_str(method, rng.randrange(2 ** 32), lo, hi, n, 0, [rng.choice([2.5, -1.0, 1.0])]))
            R.append("c14.call " + call_str(method, rng.randrange(2 ** 32), lo, hi, n, rng.choice([1, 5]), []))
    # --- large budgets in low dimension (Vegas: the number of stratification cells per axis grows like ncall^(1/ndim):
    #     ng ~ 1e5 in one dimension at 2e5 calls): in-region, constants, evaluation count, six sigma on a polynomial
    big = [(1, 200000), (2, 200000), (1, 140000)] + ([(1, 1000000), (1, 500000), (2, 1000000), (3, 500000), (4, 200000), (5, 200000), (6, 200000),
                                                      (4, 1000000), (5, 1000000), (6, 1000000), (4, 800000)] if th else [])
    for d, n in big:
        for method in METHODS:
            lo, hi = region_of(rng, d, 1)
            R.append("c14.call " + call_str(method, rng.randrange(2 ** 32), lo, hi, n, 0, [rng.choice([2.5, 0.75, -1.0])]))
            if method != "Miser" or n <= 200000:
                R.append("c14.call " + call_str(method, rng.randrange(2 ** 32), lo, hi, n, 5, []))
    # --- integrands that vanish at every sample point (f == 0; a narrow peak no sample hits): memory safety, result ~ 0
    R.append("c14.call Vegas 1 2 4 0x0p+0 0x0p+0 0x1p+0 0x1p+0 1000 0 1 0x0p+0")      # pre-fix replay of e78e51e
    for method in METHODS:
        for d in (2, 3, 5):
            lo, hi = region_of(rng, d, rng.choice([0, 1]))
            R.append("c14.call " + call_str(method, rng.randrange(2 ** 32), lo, hi, rng.choice([1000, 3000]), 0, [0.0]))
            c = [lo[i] + 0.37 * (hi[i] - lo[i]) for i in range(d)]
            R.append("c14.call " + call_str(method, rng.randrange(2 ** 32), lo, hi, rng.choice([1000, 3000]), 4, c + [1e-5]))
    # --- huge dynamic range (values spanning > 24 decades across the region): NaN-free and within six plain-MC sigma
    hdr = [(3, [0.0, 0.0], [200.0, 2.0], [1.0, 1.0], 100000),
           (4, [0.0], [1000.0], [300.0, 1.0], 100000),
           (4, [10.0, -5.0, 0.0], [60.0, 5.0, 2.0], [20.0, 1.0, 1.0, 1.0], 300000)]
    if th:
        hdr += [(3, [0.0, 0.0, 0.0], [150.0, 1.0, 300.0], [1.0, 0.5, 1.0], 200000),
                (4, [-20.0, 0.0], [500.0, 40.0], [5.0, 12.0, 1.0], 200000),
                (4, [0.0], [1000.0], [700.0, 2.0], 100000),
                (3, [5.0], [400.0], [1.0], 100000)]
    for fid, lo, hi, p, n in hdr:
        for method in METHODS:
            for _ in range((3 if th else 2) if method == "Miser" else 1):
                R.append("c14.call " + call_str(method, rng.randrange(2 ** 32), lo, hi, n, fid, p))
    # --- class B: six standard errors, sigma from repeated fixed seeds
    K = 12 if th else 8
    gi = 0
    for method in METHODS:
        for fid, d, kind in [(1, 2, 1), (5, 3, 0), (3, 4, 1), (4, 2, 2), (3, 6, 0), (4, 5, 1), (2, 1, 1), (5, 6, 2)] + ([(3, 3, 2), (4, 3, 0), (1, 5, 3)] if th else []):
            lo, hi = region_of(rng, d, kind)
            if fid == 2:
                lo = [abs(v) + 0.5 for v in lo]; hi = [l + 1.0 for l in lo]
            p = params_of(rng, fid, lo, hi, smooth=True)
            n = rng.choice([4000, 10000]) if not th else rng.choice([10000, 40000])
            for s in range(K):
                R.append("c14.call " + call_str(method, rng.randrange(2 ** 32), lo, hi, n, fid, p))
                ctx["groups"][len(R) - 1] = gi
            gi += 1
    # --- class D: histories
    for k in range(150 if th else 50):
        method = METHODS[k % 3]
        d = rng.randint(1, 6)
        lo, hi = region_of(rng, d, rng.randrange(4))
        fid = rng.choice([1, 5, 3, 4])
        if k % 3 == 2 and k % 2 == 0:
            # narrow Gaussian: Miser's fallback split dimension matters
            d = 2; lo, hi = [0.0, 0.0], [1.0, 1.0]; fid = 4
            p = [rng.uniform(0.3, 0.7), rng.uniform(0.3, 0.7), 0.004]
        else:
            p = params_of(rng, fid, lo, hi)
        tgt = call_str(method, rng.randrange(2 ** 32), lo, hi, rng.choice([200, 1000, 4000]), fid, p)
        hist = []
        for _ in range(rng.randint(1, 4)):
            hm = rng.choice(METHODS) if k % 5 else method
            hd = rng.randint(1, 6)
            hlo, hhi = region_of(rng, hd, rng.randrange(4))
            hf = rng.choice([0, 1, 5, 3, 4])
            hist.append(call_str(hm, rng.randrange(2 ** 32), hlo, hhi, rng.choice([100, 777, 3000]), hf, params_of(rng, hf, hlo, hhi)))
        R.append("c14.hist %s %d %s" % (tgt, len(hist), " ".join(hist)))
    # --- class D on the IDENTICAL region: the same method integrates another integrand there first (a grid adapted to a
    #     peaked Gaussian must not leak into the next call); non-stratified Vegas mode (3-D < 31250 calls, 4..6-D) included
    def peak(lo, hi, rel, wrel):
        return [lo[i] + rel * (hi[i] - lo[i]) for i in range(len(lo))] + [wrel * min(hi[i] - lo[i] for i in range(len(lo)))]
    same = []
    for d, n in [(3, 20000), (3, 30000), (4, 10000), (5, 8000), (6, 6000), (2, 5000)] + ([(3, 10000), (4, 30000), (6, 20000), (1, 4000)] if th else []):
        lo, hi = region_of(rng, d, rng.choice([0, 1]))
        same.append((d, n, lo, hi, 0, [2.5], 4, peak(lo, hi, 0.3, 0.08)))                        # peaked Gaussian -> constant
        same.append((d, n, lo, hi, 4, peak(lo, hi, 0.8, 0.05), 4, peak(lo, hi, 0.2, 0.05)))      # peak at 0.2 -> peak at 0.8
    for d, n, lo, hi, fid, p, hfid, hp in same:
        for method in METHODS:
            tgt = call_str(method, rng.randrange(2 ** 32), lo, hi, n, fid, p)
            hist = [call_str(method, rng.randrange(2 ** 32), lo, hi, n, hfid, hp)]
            if rng.random() < 0.5:
                hist.append(call_str(method, rng.randrange(2 ** 32), lo, hi, max(1000, n // 2), hfid, hp))
            R.append("c14.hist %s %d %s" % (tgt, len(hist), " ".join(hist)))
            if d in (2, 3):
                lim = []
                for i in range(d):
                    lim += [lo[i], hi[i]]
                R.append("c14.fhist%d %s %d %s %d %d %s 1 %d %d %d %s" % (d, method, rng.randrange(2 ** 32), " ".join(hx(v) for v in lim), n, fid, lst(p),
                                                                          rng.randrange(2 ** 32), n, hfid, lst(hp)))
    # --- class D with histories containing ABANDONED integrations (the integrand throws, the caller catches) and with the
    #     observed call made from inside the integrand of another integration
    for k in range(120 if th else 45):
        method = METHODS[k % 3] if k % 2 else "Vegas"
        d = rng.randint(1, 4)
        lo, hi = region_of(rng, d, rng.randrange(3))
        fid = rng.choice([0, 1, 5])
        n = rng.choice([1000, 2000, 5000])
        tgt = call_str(method, rng.randrange(2 ** 32), lo, hi, n, fid, params_of(rng, fid, lo, hi))
        items = []
        for _ in range(rng.randint(1, 3)):
            hm = rng.choice(METHODS) if k % 4 else method
            hd = rng.randint(1, 4)
            hlo, hhi = region_of(rng, hd, rng.randrange(3))
            hf = rng.choice([0, 1, 5])
            hn = rng.choice([500, 2000, 4000])
            hc = call_str(hm, rng.randrange(2 ** 32), hlo, hhi, hn, hf, params_of(rng, hf, hlo, hhi))
            if rng.random() < 0.7:
                items.append("A %d %s" % (rng.choice([1, 2, 7, hn // 3, hn // 2 + 1, hn - 1, 2 * hn + 3]), hc))
            else:
                items.append("C " + hc)
        if k % 3 == 0:
            om = rng.choice(METHODS) if k % 2 else method
            od = rng.randint(1, 3)
            olo, ohi = region_of(rng, od, rng.randrange(3))
            on = rng.choice([500, 3000])
            fin = "N %d %s" % (rng.choice([1, 5, on // 2, on - 2]), call_str(om, rng.randrange(2 ** 32), olo, ohi, on, 1, []))
        else:
            fin = "T"
        R.append("c14.histx %s %d %s %s" % (tgt, len(items), " ".join(items), fin))
    # --- the observed call made from INSIDE the integrand of a running integration of the same method (Miser in Miser, ...),
    #     with integrands whose pre-samples find no split dimension in some node (narrow off-centre peak on an exact-zero
    #     plateau; zero regions): many nesting positions, bit-for-bit against a fresh process
    for k in range(240 if th else 90):
        method = "Miser" if k % 3 else METHODS[k % 2]
        d = rng.choice([2, 2, 3])
        lo, hi = region_of(rng, d, rng.choice([0, 1]))
        wmin = min(hi[i] - lo[i] for i in range(d))
        p = [lo[i] + rng.uniform(0.15, 0.85) * (hi[i] - lo[i]) for i in range(d)] + [wmin * rng.choice([0.001, 0.002, 0.004, 0.01])]
        n = rng.choice([1000, 4000])
        tgt = call_str(method, rng.randrange(2 ** 32), lo, hi, n, 4, p)
        od = rng.randint(1, 3)
        olo, ohi = region_of(rng, od, rng.randrange(3))
        on = rng.choice([500, 3000])
        nk = rng.choice([1, 2, 16, 61, 100, on // 3, on // 2, on - 2])
        outer = call_str(method if k % 5 else rng.choice(METHODS), rng.randrange(2 ** 32), olo, ohi, on, rng.choice([1, 5]), [])
        R.append("c14.histx %s 0 N %d %s" % (tgt, nk, outer))
    # --- pinned random_device words (0, 1, 2^31, 2^32-1): the same call in two fresh processes / after a history is bit-identical
    for sd in (0, 1, 2 ** 31, 2 ** 32 - 1):
        for method in METHODS:
            d = rng.randint(1, 3)
            lo, hi = region_of(rng, d, 1)
            fid = rng.choice([1, 5])
            n = rng.choice([500, 2000])
            tgt = call_str(method, sd, lo, hi, n, fid, [])
            R.append("c14.call " + tgt)
            R.append("c14.hist %s 0" % tgt)                                    # twice, each first in a fresh process
            hlo, hhi = region_of(rng, 2, 1)
            R.append("c14.hist %s 1 %s" % (tgt, call_str(rng.choice(METHODS), rng.choice([0, 7]), hlo, hhi, 700, 1, [])))
            for dd in (2, 3):
                l2, h2 = region_of(rng, dd, 1)
                lim = []
                for i in range(dd):
                    lim += [l2[i], h2[i]]
                R.append("c14.fhist%d %s %d %s %d %d %s 0" % (dd, method, sd, " ".join(hx(v) for v in lim), 1000, 5, lst([])))
    # --- front ends
    for k in range(90 if th else 36):
        method = METHODS[k % 3]
        d = 2 + (k // 3) % 2
        lo, hi = region_of(rng, d, 1 + k % 3)
        fid = [0, 1, 5][(k // 6) % 3]
        lim = []
        for i in range(d):
            lim += [lo[i], hi[i]]
        R.append("c14.front%d %s %d %s %d %d %s" % (d, method, rng.randrange(2 ** 32), " ".join(hx(v) for v in lim), rng.choice([0, 1000, 3000]), fid, lst(params_of(rng, fid, lo, hi))))
    ctx["reqs"] = R
    ctx["vals"] = {}
    return R


def parse_call(a):
    method, seed, d = a[0], int(a[1]), int(a[2])
    nreg = int(a[3]); reg = [fl(t) for t in a[4:4 + nreg]]
    p = 4 + nreg
    n, fid = int(a[p]), int(a[p + 1]); npar = int(a[p + 2]); par = [fl(t) for t in a[p + 3:p + 3 + npar]]
    return dict(method=method, seed=seed, d=d, lo=reg[:d], hi=reg[d:], n=n, fid=fid, p=par, end=p + 3 + npar)


SIZE_CLAUSE = "integrand called with an argument vector whose size is not the dimension of the region"
INSIDE_HIST = ": integrand evaluated outside the region (observed call of a history comparison)"
ZERO_CLAUSE = ": region with a zero-width axis does not integrate to exactly 0"


def run_records(name, t, d_known=True):
    """history ops: two records (fresh, after) of value, evaluations, inside flag, number of wrong-size callbacks"""
    out = []
    for j, what in ((0, "fresh"), (4, "after the history")):
        if t[j + 2] != "1":
            out.append(fail("prop", name + INSIDE_HIST, what))
        if t[j + 3] != "0":
            out.append(fail("prop", SIZE_CLAUSE, "%s: %s callbacks of %s (%s)" % (name, t[j + 3], t[j + 1], what)))
    return out


def inside_fail(name, mins, maxs, lo, hi):
    for i in range(len(lo)):
        if mins[i] == math.inf and maxs[i] == -math.inf:
            continue          # no evaluation at all
        if not (mins[i] >= min(lo[i], hi[i]) and maxs[i] <= max(lo[i], hi[i])):
            return fail("prop", name + ": integrand evaluated outside the region", "axis %d: [%r,%r] not in [%r,%r]" % (i, mins[i], maxs[i], lo[i], hi[i]))
    return None


VEGAS_CONST_CLAUSE = "Vegas: constant integrand not integrated to rounding (weights of the zero-variance iterations)"


def const_check(ctx, name, method, v, ex, calls):
    """constants exactly to rounding for all three methods.  Vegas misses by ~1e-8 relative on the unchanged
    tree (its zero-variance iterations do not always get the TINY weight): reported under a fixed clause
    (known finding C14-vegas-constants) when the deviation is below 1e-6; larger deviations alarm normally."""
    rel = abs(v - ex) / abs(ex) if ex != 0 else abs(v)
    # "exactly to rounding": plain Monte Carlo sums n terms volume*c (measured ~0.2 n eps): (n+100) eps; Miser averages equal
    # values per leaf and combines with fracl + (1-fracl) = 1 (measured <= 8.9 eps at every budget): flat 32 eps;
    # Vegas: threshold of the known finding unchanged
    tol = {"Monte-Carlo": (calls + 100) * 2.0 ** -53, "Miser": 32 * 2.0 ** -53}.get(method, (calls + 100) * 8 * 2.0 ** -53)
    if method == "Vegas":
        ctx["stats"]["vegas_constant_worst_rel_dev_1e-12"] = max(ctx["stats"].get("vegas_constant_worst_rel_dev_1e-12", 0), int(rel * 1e12))
    if rel <= tol:
        return []
    # the floor TINY = 1e-30 on the variance of an iteration is absolute: for integrals of tiny magnitude (|I| < 1e-8, where
    # I^2/calls^2 approaches TINY) the same mechanism costs up to ~1e-4 relative (observed 5.8e-5 at I = 2e-10)
    # ... and with the number of evaluations: the weight that keeps the exact first iteration dominant is eroded by the rounding
    # noise accumulated over the evaluations of a sweep (audit: 1.5e-6 at 5e6 evaluations in six dimensions): sqrt(evaluations/1e5)
    vegas_bound = (1e-6 if abs(ex) >= 1e-8 else 1e-3) * max(1.0, math.sqrt(calls / 1e5))
    if method == "Vegas" and rel < vegas_bound:
        bump(ctx, "vegas_constant_not_to_rounding")
        return [fail("prop", VEGAS_CONST_CLAUSE, "%s: %r vs %r (relative %.3g)" % (name, v, ex, rel))]
    return [fail("prop", name + ": constant integrand not integrated exactly", "%r vs %r" % (v, ex))]


VEGAS_OVERFLOW_CLAUSE = "Vegas: exits for a constant integrand whose weighted square overflows (|c| >= 1e157 calls / volume)"
VEGAS_PEAK_CLAUSE = "Vegas: biased low on peaked off-centre Gaussians at low budgets (mean over seeds more than 4 standard errors from the exact value)"


def sigma_check(ctx, name, method, fid, lo, hi, par, n, v, ex):
    """polynomial integrands: within six plain-Monte-Carlo standard errors (closed form) - for plain Monte Carlo this is the
    estimator's own standard error; a stratified / adaptive method must not be worse than plain sampling"""
    sg = plain_mc_sigma(fid, lo, hi, par, max(n, 1))
    if sg is None or n < 30:
        return []
    if abs(v - ex) > 6 * sg + 1e-12 * (abs(ex) + abs(float(fmax_bound(fid, lo, hi, par)))):
        rel = abs(v - ex) / abs(ex) if ex else math.inf
        spread = sg * math.sqrt(n) / abs(ex) if ex else math.inf       # relative standard deviation of the integrand over the region
        if method == "Vegas" and spread < 1e-3:
            # near-constant integrand: the mechanism of the constants (absolute TINY floors on the variance of an iteration)
            bound = (1e-6 if abs(ex) >= 1e-8 else 1e-3) * max(1.0, math.sqrt(n / 1e5))
            if rel < max(bound, 1e-3 if spread < 1e-5 else bound):
                bump(ctx, "vegas_near_constant_beyond_plain_mc_sigma")
                return [fail("prop", VEGAS_CONST_CLAUSE, "%s: near-constant polynomial (relative spread %.2g): %r vs %r (relative %.3g, plain-MC sigma %.3g)" % (name, spread, v, ex, rel, sg))]
        return [fail("prop", name + ": estimate farther than six (plain Monte-Carlo) standard errors from the exact value",
                     "value %r exact %r sigma %.3g budget %d" % (v, ex, sg, n))]
    return []


NONFINITE_CLAUSE = "Integrate_MC returned a non-finite value for a bounded integrand"


def nonfinite_fail(name, *vals):
    for v in vals:
        if math.isnan(v) or math.isinf(v):
            return [fail("prop", NONFINITE_CLAUSE, "%s returned %r" % (name, v))]
    return []


def plain_mc_sigma(fid, lo, hi, p, n):
    """standard error of plain Monte Carlo with n points: sqrt((V * int f^2 - I^2) / n), closed form for the
    separable exponential (fid 3) and the Gaussian (fid 4) families"""
    d = len(lo)
    vol = 1.0
    for i in range(d):
        vol *= hi[i] - lo[i]
    I = exact_integral(fid, lo, hi, p)
    if fid in (1, 5, 6):
        # sum of independent coordinates: Var = sum of the coordinate variances (uniform on [a,b])
        var = Fraction(0)        # exact: far from the origin the moments cancel to many digits
        for a, b in zip(lo, hi):
            a, b = Fraction(a), Fraction(b)
            if fid in (1, 6):
                var += (b - a) ** 2 / 12
            else:
                m2 = (b ** 3 - a ** 3) / (3 * (b - a)); m4 = (b ** 5 - a ** 5) / (5 * (b - a))
                var += m4 - m2 * m2
        return abs(vol) * math.sqrt(float(var) / n)
    if fid == 3:
        I2 = exact_integral(3, lo, hi, [2 * a for a in p])
    elif fid == 4:
        I2 = exact_integral(4, lo, hi, p[:d] + [p[d] / math.sqrt(2.0)])
    else:
        return None
    return math.sqrt(max(vol * I2 - I * I, 0.0) / n)


HDR_MIN_CALLS = 50000   # requests with fid 3/4 and at least this budget are the huge-dynamic-range accuracy family


def vegas_cells(ncall, ndim):
    """cell arithmetic of the init <= 2 block: (ng, nd, npg, k, evaluations of the 5 iterations)"""
    ng = int(math.pow(ncall / 2.0 + 0.25, 1.0 / ndim))
    nd = 50
    if 2 * ng - 50 >= 0:
        npg = ng // 50 + 1
        nd = ng // npg
        ng = npg * nd
    k = ng ** ndim
    npg = max(ncall // k, 2)
    return ng, nd, npg, k, 5 * npg * k


def crash_fail(name, impl):
    return [fail("prop", name + " crashed / exited on a valid request: " + tag(impl), impl[:200])]


def _exe(ctx):
    import glob, os
    c = [p for p in glob.glob(os.path.join(ctx.get("libdir") or "", "hz_c14_*")) if not p.endswith(".tmp")]
    return c[0] if c else None


def _rerun(exe, rq):
    import subprocess
    p = subprocess.run([exe, "/dev/null"], input="0 %s\n" % rq, stdout=subprocess.PIPE, stderr=subprocess.PIPE, text=True, timeout=600)
    for l in p.stdout.splitlines():
        if l.startswith("0 "):
            return l[2:].strip()
    return "harness-no-answer"


REGION_CLAUSE = "Integrate_MC modified the caller's region vector"


def cmp_regobj(a, impl, ctx):
    d = int(a[0]); nreg = int(a[1]); reg = [fl(t) for t in a[2:2 + nreg]]
    lo, hi = reg[:d], reg[d:]
    p = 2 + nreg
    ni = int(a[p]); p += 1
    items = []
    for _ in range(ni):
        mode = a[p]; p += 1
        k = None
        if mode == "A":
            k = int(a[p]); p += 1
        method, seed, n, fid = a[p], int(a[p + 1]), int(a[p + 2]), int(a[p + 3]); npar = int(a[p + 4])
        par = [fl(t) for t in a[p + 5:p + 5 + npar]]; p += 5 + npar
        items.append((mode, k, method, n, fid, par))
    ctx["nontrivial"].add(("c14.regobj", d, tuple(sorted({it[2] for it in items}))))
    if tag(impl) != "ok":
        return crash_fail("Integrate_MC (sequence on one region vector)", impl)
    t = toks(impl)
    out = []
    refs = []
    q = 5 * ni
    while q < len(t):
        assert t[q] == "ref"
        refs.append((t[q + 1], t[q + 2])); q += 3
    ri = 0
    vol = 1.0
    for i in range(d):
        vol *= hi[i] - lo[i]
    for j, (mode, k, method, n, fid, par) in enumerate(items):
        v, calls, intact, seen, ins = t[5 * j:5 * j + 5]
        name = "Integrate_MC(%s)" % method
        if intact != "1":
            out.append(fail("prop", REGION_CLAUSE, "%s, call %d of the sequence (%s): the vector handed in is no longer bitwise what was passed" % (name, j + 1, "abandoned at evaluation %d" % k if mode == "A" else "completed")))
        if seen != "0":
            out.append(fail("prop", REGION_CLAUSE + " during the integration (seen by the integrand)", "%s, call %d" % (name, j + 1)))
        if ins != "1":
            out.append(fail("prop", name + ": integrand evaluated outside the region (sequence on one region vector)", "call %d" % (j + 1)))
        if mode == "C":
            rv, rc = refs[ri]; ri += 1
            if nonfinite_fail(name, fl(v)):
                out += nonfinite_fail(name, fl(v))
            elif (v, calls) != (rv, rc):
                out.append(fail("prop", name + ": result depends on integrations run before it (same call and seed, fresh process vs after a history on the same region vector object)",
                                "fresh %s (%s evaluations) in the sequence %s (%s evaluations)" % (rv, rc, v, calls)))
            elif fid in (0, 7) and out == []:
                cst = par[0] if fid == 0 else sum(reg)
                out += const_check(ctx, name, method, fl(v), cst * vol, int(calls))
    return out


def compare(rq, impl, model, ctx):
    op = rq.split(" ", 1)[0]
    a = rq.split()[1:]
    bump(ctx, op)
    if tag(impl) == "timeout" and _exe(ctx):
        # the 20 s alarm of a forked child can fire on an overloaded machine: ask once more before believing it
        impl = _rerun(_exe(ctx), rq)
        bump(ctx, "timeout-retried")
    if op == "c14.hist":
        c = parse_call(a)
        ctx["nontrivial"].add((op, c["method"], c["d"], c["fid"]))
        if tag(impl) != "ok":
            return crash_fail("Integrate_MC(%s)" % c["method"], impl)
        t = toks(impl)
        nf_ = nonfinite_fail("Integrate_MC(%s)" % c["method"], fl(t[0]), fl(t[4]))
        if nf_:
            return nf_
        rr = run_records("Integrate_MC(%s)" % c["method"], t)
        if t[0] != t[4] or t[1] != t[5]:
            rr.append(fail("prop", "Integrate_MC(%s): result depends on integrations run before it (same call and seed, fresh process vs after a history)" % c["method"],
                           "fresh %s (%s calls) after history %s (%s calls)" % (t[0], t[1], t[4], t[5])))
        return rr
    if op == "c14.histx":
        c = parse_call(a)
        name = "Integrate_MC(%s)" % c["method"]
        nested = " N " in (" " + " ".join(a[c["end"]:]) + " ")
        ctx["nontrivial"].add((op, c["method"], c["d"], c["fid"], nested))
        if tag(impl) != "ok":
            return crash_fail(name, impl)
        t = toks(impl)
        nf_ = nonfinite_fail(name, fl(t[0]), fl(t[4]))
        if nf_:
            return nf_
        rr = run_records(name, t)
        if t[0] != t[4] or t[1] != t[5]:
            rr.append(fail("prop", name + ": result depends on integrations run before it (same call and seed, fresh process vs after a history with abandoned / enclosing integrations)",
                           "fresh %s (%s evaluations) after history %s (%s evaluations)" % (t[0], t[1], t[4], t[5])))
        return rr
    if op == "c14.regobj":
        return cmp_regobj(a, impl, ctx)
    if op == "c14.outer":
        # statistic only (outside the statement): does a complete integration run inside the integrand change the OUTER result?
        t = toks(impl) if tag(impl) == "ok" else ["nan", "0", "nan", "0"]
        c = parse_call(a)
        bump(ctx, "outer_with_nested_inner:%s:%s" % (c["method"], "unchanged" if (t[0] == t[2] and t[1] == t[3]) else "changed"))
        return []
    if op == "c14.front3v":
        method = a[0]
        lim = [fl(t) for t in a[2:8]]
        n, fid = int(a[8]), int(a[9]); npar = int(a[10]); par = [fl(t) for t in a[11:11 + npar]]
        name = "Integrate_3D(Vector, %s)" % method
        ctx["nontrivial"].add((op, method, fid))
        if tag(impl) != "ok":
            return crash_fail(name, impl)
        t = toks(impl)
        v, calls = fl(t[0]), int(t[1]); mins = [fl(x) for x in t[2:5]]; maxs = [fl(x) for x in t[5:8]]
        if nonfinite_fail(name, v):
            return nonfinite_fail(name, v)
        out = []
        r1, r2, c1, c2, p1, p2 = lim
        # the callback sees Cartesian vectors: radius and polar cosine must lie inside the requested ranges (rounding of sin/cos/acos)
        if not (mins[0] >= r1 * (1 - 1e-12) - 1e-300 and maxs[0] <= r2 * (1 + 1e-12)):
            out.append(fail("prop", name + ": integrand evaluated outside the requested radial range", "[%r,%r] not in [%r,%r]" % (mins[0], maxs[0], r1, r2)))
        if not (mins[1] >= c1 - 1e-12 and maxs[1] <= c2 + 1e-12) and not (r1 == 0.0 and mins[0] == 0.0):
            out.append(fail("prop", name + ": integrand evaluated outside the requested polar range", "[%r,%r] not in [%r,%r]" % (mins[1], maxs[1], c1, c2)))
        vol = (r2 ** 3 - r1 ** 3) / 3 * (c2 - c1) * (p2 - p1)
        if fid == 0:
            ex = par[0] * vol; er2 = (r2 ** 3 - r1 ** 3) / 3 / (r2 - r1); er4 = (r2 ** 5 - r1 ** 5) / 5 / (r2 - r1); sd = abs(par[0]) * math.sqrt(max(er4 - er2 * er2, 0.0))
        elif fid == 1:
            ex = (r2 ** 5 - r1 ** 5) / 5 * (c2 - c1) * (p2 - p1); e1 = (r2 ** 5 - r1 ** 5) / 5 / (r2 - r1); e2 = (r2 ** 9 - r1 ** 9) / 9 / (r2 - r1); sd = math.sqrt(max(e2 - e1 * e1, 0.0))
        else:
            ex = (r2 ** 4 - r1 ** 4) / 4 * (c2 ** 2 - c1 ** 2) / 2 * (p2 - p1)
            er6 = (r2 ** 7 - r1 ** 7) / 7 / (r2 - r1); ec2 = (c2 ** 3 - c1 ** 3) / 3 / (c2 - c1); mean_ = ex / ((r2 - r1) * (c2 - c1) * (p2 - p1)); sd = math.sqrt(max(er6 * ec2 - mean_ ** 2, 0.0))
        nexp = 30000 if n == 0 else n
        boxvol = (r2 - r1) * (c2 - c1) * (p2 - p1)
        sg = abs(boxvol) * sd / math.sqrt(nexp)
        if abs(v - ex) > 6 * sg + 1e-12 * abs(ex):
            out.append(fail("prop", name + ": estimate farther than six (plain Monte-Carlo) standard errors from the exact value of the spherical integral",
                            "value %r exact %r sigma %.3g" % (v, ex, sg)))
        if method != "Vegas" and calls != nexp:
            out.append(fail("corr", name + ": number of integrand calls differs from the budget", "%d vs %d" % (calls, nexp)))
        if method == "Vegas" and calls != vegas_cells(nexp, 3)[4]:
            out.append(fail("prop", name + ": number of integrand evaluations is not 5 sweeps over all ng^ndim stratification cells with npg points each", "%d vs %d" % (calls, vegas_cells(nexp, 3)[4])))
        return out
    if op in ("c14.fhist2", "c14.fhist3"):
        name = "Integrate_%sD(%s)" % (op[-1], a[0])
        ctx["nontrivial"].add((op, a[0]))
        if tag(impl) != "ok":
            return crash_fail(name, impl)
        t = toks(impl)
        nf_ = nonfinite_fail(name, fl(t[0]), fl(t[4]))
        if nf_:
            return nf_
        rr = run_records(name, t)
        if t[0] != t[4] or t[1] != t[5]:
            rr.append(fail("prop", name + ": result depends on integrations run before it (same call and seed, fresh process vs after a history on the same region)",
                           "fresh %s (%s calls) after history %s (%s calls)" % (t[0], t[1], t[4], t[5])))
        return rr
    if op in ("c14.front2", "c14.front3"):
        d = int(op[-1])
        method = a[0]
        lim = [fl(t) for t in a[2:2 + 2 * d]]
        lo, hi = lim[0::2], lim[1::2]
        n, fid = int(a[2 + 2 * d]), int(a[3 + 2 * d]); npar = int(a[4 + 2 * d]); par = [fl(t) for t in a[5 + 2 * d:5 + 2 * d + npar]]
        ctx["nontrivial"].add((op, method, fid))
        name = "Integrate_%dD(%s)" % (d, method)
        if tag(impl) != "ok":
            return [fail("prop", name + " crashed / exited on a valid request: " + tag(impl), impl[:200])]
        t = toks(impl)
        v, calls = fl(t[0]), int(t[1]); mins = [fl(x) for x in t[2:2 + d]]; maxs = [fl(x) for x in t[2 + d:2 + 2 * d]]
        if nonfinite_fail(name, v):
            return nonfinite_fail(name, v)
        f = inside_fail(name, mins, maxs, lo, hi)
        if f:
            return [f]
        out = []
        if any(hi[i] == lo[i] for i in range(d)):
            return [] if v == 0.0 else [fail("prop", name + ZERO_CLAUSE, repr(v))]
        for i in range(d):
            if calls >= 500 and (maxs[i] - mins[i]) < 0.8 * abs(hi[i] - lo[i]):
                out.append(fail("prop", name + ": samples do not cover the requested range of an axis (region passed in the wrong order)", "axis %d" % i))
        ex = exact_integral(fid, lo, hi, par)
        if fid == 0:
            out += const_check(ctx, name, method, v, ex, calls)
        elif fid in (1, 5):
            out += sigma_check(ctx, name, method, fid, lo, hi, par, calls if method == "Vegas" else (30000 if n == 0 else n), v, ex)
        nexp = 30000 if n == 0 else n
        if method != "Vegas" and calls != nexp:
            out.append(fail("corr", name + ": number of integrand calls differs from the budget", "%d vs %d" % (calls, nexp)))
        if method == "Vegas" and nexp >= 4:
            ng, nd_, npg, kk, total = vegas_cells(nexp, d)
            if calls != total:
                out.append(fail("prop", name + ": number of integrand evaluations is not 5 sweeps over all ng^ndim stratification cells with npg points each",
                                "%d evaluations, expected 5*%d*%d = %d (ng = %d)" % (calls, npg, kk, total, ng)))
        return out
    # c14.call -------------------------------------------------------------------------------------
    c = parse_call(a)
    d, lo, hi = c["d"], c["lo"], c["hi"]
    name = "Integrate_MC(%s)" % c["method"]
    if tag(model) == "err":       # guards of fix 52605b2: malformed region / empty budget must stop with a diagnostic
        ctx["nontrivial"].add((op, c["method"], "guard"))
        if tag(impl) == "err":
            return []
        return [fail("prop", name + ": meaningless request (malformed region or empty budget) did not stop with a diagnostic", impl[:200])]
    if tag(impl) == "err" and c["method"] == "Vegas" and c["fid"] == 0 and abs(c["p"][0]) >= 1e150:
        return [fail("prop", VEGAS_OVERFLOW_CLAUSE, "%s: constant %r" % (name, c["p"][0]))]
    if tag(impl) != "ok":
        return [fail("prop", name + " crashed / exited on a valid request: " + tag(impl), impl[:200])]
    t = toks(impl)
    v, calls = fl(t[0]), int(t[1]); mins = [fl(x) for x in t[2:2 + d]]; maxs = [fl(x) for x in t[2 + d:2 + 2 * d]]
    nf = int(t[2 + 2 * d]); first = [fl(x) for x in t[3 + 2 * d:3 + 2 * d + nf]]
    if "sz" in t:
        bad, mxs = int(t[t.index("sz") + 1]), int(t[t.index("sz") + 2])
        if bad:
            return [fail("prop", SIZE_CLAUSE, "%s: %d of %d callbacks, largest size %d, dimension %d" % (name, bad, calls, mxs, d))]
    kind = "unit" if lo == [0.0] * d else ("wide" if max(abs(h - l) for h, l in zip(hi, lo)) > 50 else ("narrow" if min(abs(h - l) for h, l in zip(hi, lo)) < 0.02 else "mid"))
    if any(h < l for h, l in zip(hi, lo)):
        kind += "-reversed"
    ctx["nontrivial"].add((op, c["method"], d, c["fid"], kind, tag(model)))
    if nonfinite_fail(name, v):
        return nonfinite_fail(name, v)
    f = inside_fail(name, mins, maxs, lo, hi)
    if f:
        return [f]
    out = []
    if any(hi[i] == lo[i] for i in range(d)):
        ctx["nontrivial"].add((op, c["method"], "degenerate"))
        return [] if v == 0.0 else [fail("prop", name + ZERO_CLAUSE, repr(v))]
    ex = exact_integral(c["fid"], lo, hi, c["p"])
    if c["fid"] in (1, 5, 6) and c["n"] >= 30:
        # polynomials: the standard error of plain Monte Carlo is known in closed form, every budget; the stratified /
        # adaptive methods must not be worse than plain sampling with the evaluations they actually made
        sc = sigma_check(ctx, name, c["method"], c["fid"], lo, hi, c["p"], c["n"] if c["method"] != "Vegas" else c["n"], v, ex)
        if sc:
            return sc
    if c["fid"] in (3, 4) and c["n"] >= HDR_MIN_CALLS:
        # accuracy clause on the huge-dynamic-range family: within six plain-Monte-Carlo standard errors (generous:
        # the stratified methods must not be worse than plain sampling)
        sg = plain_mc_sigma(c["fid"], lo, hi, c["p"], c["n"])
        ctx["nontrivial"].add(("hdr-six-sigma", c["method"], d, c["fid"]))
        if sg is not None and abs(v - ex) > 6 * sg + 1e-12 * abs(ex):
            return [fail("prop", name + ": estimate farther than six (plain Monte-Carlo) standard errors from the exact value",
                         "value %r exact %r sigma %.3g" % (v, ex, sg))]
    if c["fid"] == 0 and not (c["method"] == "Vegas" and c["n"] < 100):
        # Vegas below 100 calls (the quantifier starts at 1e3) refines its grid from a handful of points: only the guard
        # boundary (accepted, terminates, finite, inside, evaluation count) is checked there
        out += const_check(ctx, name, c["method"], v, ex, calls)
    if c["method"] != "Vegas" and calls != c["n"]:
        out.append(fail("corr", name + ": number of integrand calls differs from the budget (Miser accounting npre+nptl+nptr = npts)", "%d vs %d" % (calls, c["n"])))
    if c["method"] == "Vegas" and c["n"] >= 4:
        ng, nd_, npg, kk, total = vegas_cells(c["n"], d)
        ctx["stats"]["vegas_max_cell_index"] = max(ctx["stats"].get("vegas_max_cell_index", 0), ng)
        if calls != total:
            out.append(fail("prop", name + ": number of integrand evaluations is not 5 sweeps over all ng^ndim stratification cells with npg points each",
                            "%d evaluations, expected 5*%d*%d = %d (ng = %d)" % (calls, npg, kk, total, ng)))
    idx = ctx.get("cursor", 0)
    ctx.setdefault("vals", {})[rq] = (v, ex)
    if out:
        return out
    if tag(model) == "ok":
        m = toks(model)
        mv, mcalls = fr(m[0]), int(m[1])
        mmins = [fr(x) for x in m[2:2 + d]]; mmaxs = [fr(x) for x in m[2 + d:2 + 2 * d]]
        mnf = int(m[2 + 2 * d]); mfirst = [fr(x) for x in m[3 + 2 * d:3 + 2 * d + mnf]]
        vol = 1.0
        for i in range(d):
            vol *= hi[i] - lo[i]
        scale = abs(Fraction(vol)) * Fraction(fmax_bound(c["fid"], lo, hi, c["p"]))
        ax = [abs(Fraction(lo[i])) + abs(Fraction(hi[i])) for i in range(d)]
        knife = "knife" in m and m[m.index("knife") + 1] == "1"
        n0 = len(out)
        if mcalls != calls:
            out.append(fail("corr", name + ": number of integrand calls differs from the model", "%d vs %d" % (calls, mcalls)))
        elif nf != mnf or any(not close(first[i], mfirst[i], ax[i % d], 8) for i in range(nf)):
            out.append(fail("corr", name + ": first sample points differ from lo + u (hi - lo) on the predicted mt19937 uniforms", ""))
        elif any(not close(mins[i], mmins[i], ax[i], 8) or not close(maxs[i], mmaxs[i], ax[i], 8) for i in range(d)):
            out.append(fail("corr", name + ": bounding box of the sample points differs from the model", ""))
        elif not close(v, mv, scale, 16 * (calls + 64)):
            out.append(fail("corr", name + ": value differs from the model on the same sample points", "%r vs %s" % (v, float(mv))))
        if knife and len(out) > n0:
            # a Miser allocation int(...) sat within 2^-30 of an integer: the double rounding decides
            del out[n0:]
            ctx["excused"] += 1
    elif tag(model) not in ("undef",):
        out.append(fail("corr", "protocol: model answered " + tag(model), ""))
    return out


def finalize(ctx, exe):
    """six standard errors: groups of identical calls at different fixed seeds"""
    out = []
    R = ctx["reqs"]
    groups = {}
    for i, g in ctx["groups"].items():
        if R[i] in ctx["vals"]:
            groups.setdefault(g, []).append((R[i],) + ctx["vals"][R[i]])
    for g, items in groups.items():
        if len(items) < 6:
            continue
        vals = [v for _, v, _ in items]; ex = items[0][2]
        k = len(vals)
        mean = sum(vals) / k
        s = math.sqrt(sum((v - mean) ** 2 for v in vals) / (k - 1))
        c = parse_call(items[0][0].split()[1:])
        ctx["nontrivial"].add(("six-sigma", c["method"], c["d"], c["fid"]))
        tol = 6 * 1.6 * s + 1e-12 * abs(ex)
        for rq, v, _ in items:
            if abs(v - ex) > tol:
                out.append(dict(fail("prop", "Integrate_MC(%s): estimate farther than six standard errors from the exact value" % c["method"],
                                     "value %r exact %r standard error (from %d seeds) %.3g" % (v, ex, k, s)), req=rq))
                break
        else:
            if abs(mean - ex) > 5 * s / math.sqrt(k) + 1e-12 * abs(ex):
                out.append(dict(fail("prop", "Integrate_MC(%s): mean over seeds farther than six standard errors from the exact value (bias)" % c["method"],
                                     "mean %r exact %r s=%.3g k=%d" % (mean, ex, s, k)), req=items[0][0]))
    # peaked off-centre Gaussians at low budgets: bias of the mean over >= 30 seeds.  Vegas: against its own spread (it claims to
    # adapt); plain Monte Carlo: against the closed-form standard error (unbiased; its sample spread is meaningless when hits are rare)
    pk = {}
    for i, key in ctx.get("peaked", {}).items():
        if R[i] in ctx["vals"]:
            pk.setdefault(key, []).append((R[i],) + ctx["vals"][R[i]])
    for (gi_, method), items in pk.items():
        if len(items) < 20:
            continue
        vals = [v for _, v, _ in items]; ex = items[0][2]; k = len(vals)
        mean = sum(vals) / k
        s = math.sqrt(sum((v - mean) ** 2 for v in vals) / (k - 1))
        c = parse_call(items[0][0].split()[1:])
        ctx["nontrivial"].add(("peaked-bias", method, c["d"], c["n"]))
        if method == "Vegas":
            sem = s / math.sqrt(k)
            ctx["stats"]["vegas_peaked_bias_in_sem_x100:d%d:n%d:w%.2g" % (c["d"], c["n"], c["p"][c["d"]])] = int(100 * (mean - ex) / sem) if sem > 0 else -10 ** 9
            if abs(mean - ex) > 4 * sem + 1e-12 * abs(ex):
                out.append(dict(fail("prop", VEGAS_PEAK_CLAUSE, "d=%d n=%d width %.3g: mean %r exact %r s=%.3g k=%d" % (c["d"], c["n"], c["p"][c["d"]], mean, ex, s, k)), req=items[0][0]))
        else:
            sem = plain_mc_sigma(4, c["lo"], c["hi"], c["p"], c["n"]) / math.sqrt(k)
            if abs(mean - ex) > 5 * sem + 1e-12 * abs(ex):
                out.append(dict(fail("prop", "Integrate_MC(Monte-Carlo): mean over seeds farther than five standard errors from the exact value (bias)",
                                     "mean %r exact %r sem %.3g k=%d" % (mean, ex, sem, k)), req=items[0][0]))
    return out


def oracle_only(rq, impl, ctx):
    return [f for f in compare(rq, impl, "undef", ctx) if f["kind"] == "prop"]
